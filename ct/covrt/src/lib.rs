//! Runtime for the trace-recording flavour: SanitizerCoverage callbacks (edges, loads, stores).
//! This crate is the only one that is NOT instrumented, so the callbacks cannot recurse.
//!
//! The "event log" of an execution window is the sequence of control-flow edge ids and the
//! sequence of (address, width, load|store); both are folded into running 64-bit hashes plus
//! counters, and optionally recorded in full for diagnosis.

use std::cell::{Cell, RefCell};
use std::sync::atomic::{AtomicU32, Ordering};

#[derive(Clone, Copy, Default, PartialEq, Eq, Debug)]
pub struct Trace {
    pub edge_hash: u64,
    pub edge_count: u64,
    pub mem_hash: u64,
    pub mem_count: u64,
}

#[derive(Clone, Copy, PartialEq, Eq, Debug)]
pub struct Event {
    /// 0 = edge, 1 = load, 2 = store
    pub kind: u8,
    pub width: u8,
    /// edge id, or address
    pub value: u64,
}

thread_local! {
    static ON: Cell<bool> = const { Cell::new(false) };
    static FULL: Cell<bool> = const { Cell::new(false) };
    static EH: Cell<u64> = const { Cell::new(0) };
    static EC: Cell<u64> = const { Cell::new(0) };
    static MH: Cell<u64> = const { Cell::new(0) };
    static MC: Cell<u64> = const { Cell::new(0) };
    static LOG: RefCell<Vec<Event>> = const { RefCell::new(Vec::new()) };
}

static NEXT_GUARD: AtomicU32 = AtomicU32::new(1);

#[inline(always)]
fn mix(h: u64, v: u64) -> u64 { (h ^ v).wrapping_mul(0x0100_0000_01b3).rotate_left(23) }

/// Begin a traced window on this thread.
#[inline(never)]
pub fn start(full: bool) {
    EH.with(|c| c.set(0xcbf2_9ce4_8422_2325));
    EC.with(|c| c.set(0));
    MH.with(|c| c.set(0x8422_2325_cbf2_9ce4));
    MC.with(|c| c.set(0));
    FULL.with(|c| c.set(full));
    if full {
        LOG.with(|l| l.borrow_mut().clear());
    }
    ON.with(|c| c.set(true));
}

/// End the traced window and return what it recorded.
#[inline(never)]
pub fn stop() -> Trace {
    ON.with(|c| c.set(false));
    Trace {
        edge_hash: EH.with(Cell::get),
        edge_count: EC.with(Cell::get),
        mem_hash: MH.with(Cell::get),
        mem_count: MC.with(Cell::get),
    }
}

/// The fully recorded window (only when `start(true)` was used).
pub fn take_log() -> Vec<Event> { LOG.with(|l| std::mem::take(&mut *l.borrow_mut())) }

pub fn guards() -> u32 { NEXT_GUARD.load(Ordering::Relaxed) - 1 }

#[inline(always)]
fn edge(id: u32) {
    if !ON.with(Cell::get) {
        return;
    }
    EH.with(|c| c.set(mix(c.get(), u64::from(id))));
    EC.with(|c| c.set(c.get() + 1));
    if FULL.with(Cell::get) {
        ON.with(|c| c.set(false));
        LOG.with(|l| l.borrow_mut().push(Event { kind: 0, width: 0, value: u64::from(id) }));
        ON.with(|c| c.set(true));
    }
}

#[inline(always)]
fn mem(kind: u8, width: u8, addr: usize) {
    if !ON.with(Cell::get) {
        return;
    }
    let v = (addr as u64) ^ (u64::from(kind) << 62) ^ (u64::from(width) << 56);
    MH.with(|c| c.set(mix(c.get(), v)));
    MC.with(|c| c.set(c.get() + 1));
    if FULL.with(Cell::get) {
        ON.with(|c| c.set(false));
        LOG.with(|l| l.borrow_mut().push(Event { kind, width, value: addr as u64 }));
        ON.with(|c| c.set(true));
    }
}

#[no_mangle]
pub unsafe extern "C" fn __sanitizer_cov_trace_pc_guard_init(start: *mut u32, stop: *mut u32) {
    let mut p = start;
    while p < stop {
        if *p == 0 {
            *p = NEXT_GUARD.fetch_add(1, Ordering::Relaxed);
        }
        p = p.add(1);
    }
}

#[no_mangle]
pub unsafe extern "C" fn __sanitizer_cov_trace_pc_guard(guard: *mut u32) { edge(*guard); }

macro_rules! memcb {
    ($l:ident, $s:ident, $w:expr) => {
        #[no_mangle]
        pub unsafe extern "C" fn $l(addr: *const u8) { mem(1, $w, addr as usize); }
        #[no_mangle]
        pub unsafe extern "C" fn $s(addr: *const u8) { mem(2, $w, addr as usize); }
    };
}
memcb!(__sanitizer_cov_load1, __sanitizer_cov_store1, 1);
memcb!(__sanitizer_cov_load2, __sanitizer_cov_store2, 2);
memcb!(__sanitizer_cov_load4, __sanitizer_cov_store4, 4);
memcb!(__sanitizer_cov_load8, __sanitizer_cov_store8, 8);
memcb!(__sanitizer_cov_load16, __sanitizer_cov_store16, 16);
