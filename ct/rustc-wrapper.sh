#!/bin/sh
# RUSTC_WRAPPER for the trace-recording flavour: adds SanitizerCoverage edge + load/store callbacks
# to the library, its hash dependencies and the harness crate (fips204 is const-generic and is
# monomorphised downstream, so the harness must be instrumented too). Everything else - the callback
# runtime `covrt`, proc-macros, build scripts, serde - is compiled untouched.
rustc="$1"; shift
name=""
prev=""
for a in "$@"; do
  if [ "$prev" = "--crate-name" ]; then name="$a"; fi
  prev="$a"
done
case "$name" in
  fips204|fipsim_ct|sha3|sha2|keccak|digest|block_buffer|crypto_common|generic_array|rand_core|zeroize)
    exec "$rustc" "$@" -Cpasses=sancov-module \
      -Cllvm-args=-sanitizer-coverage-level=3 \
      -Cllvm-args=-sanitizer-coverage-trace-pc-guard \
      -Cllvm-args=-sanitizer-coverage-trace-loads \
      -Cllvm-args=-sanitizer-coverage-trace-stores ;;
  *) exec "$rustc" "$@" ;;
esac
