//! fipsim-ct — C14: secret-independent execution in constant-time test mode.
//!
//! The RNG device is the one nondeterminism source the property quantifies over; the simulator
//! owns it and asks that the event history of the execution (control-flow edges, load/store
//! addresses, recorded by compiler-inserted probes) not depend on what it returns.
//!
//! usage: fipsim-ct c14 [--tier ..] [--seed N] [--flavour NAME] [--evidence FILE] [--replay-dir DIR]
//!        fipsim-ct replay <file>
#![allow(dead_code)]

#[path = "../../sim/src/common.rs"]
mod common;
mod probes;
#[path = "../../sim/src/prng.rs"]
mod prng;

use common::*;
use covrt::{Event, Trace};
use probes::*;
use prng::Prng;
use serde_json::{json, Value};
use std::collections::{BTreeMap, BTreeSet};
use std::path::PathBuf;
use std::time::Instant;

const MSG: [u8; 8] = [0, 1, 2, 3, 4, 5, 6, 7];

fn trace_json(t: &Trace) -> Value { json!({"edges": t.edge_count, "mem_events": t.mem_count, "edge_hash": format!("{:016x}", t.edge_hash), "mem_hash": format!("{:016x}", t.mem_hash)}) }

fn what_differs(a: &Trace, b: &Trace) -> &'static str {
    if a.edge_count != b.edge_count || a.edge_hash != b.edge_hash {
        "control-flow"
    } else {
        "memory-address"
    }
}

/// structured RNG streams in addition to uniform ones
fn pipeline_draw(p: &mut Prng, run: u64, base: &[u8; 64]) -> ([u8; 64], &'static str) {
    let mut d = [0u8; 64];
    match run % 16 {
        0 => (d, "all-00"),
        1 => ([0xFF; 64], "all-FF"),
        2 => {
            d[(p.below(64)) as usize] = 1 << p.below(8);
            (d, "single-bit")
        }
        3 => {
            // xi fixed (same key as baseline), rnd varied
            d = *base;
            p.fill(&mut d[32..]);
            (d, "xi-fixed-rnd-varied")
        }
        4 => {
            d = *base;
            p.fill(&mut d[..32]);
            (d, "xi-varied-rnd-fixed")
        }
        5 => {
            d = *base;
            let bit = p.below(512) as usize;
            d[bit / 8] ^= 1 << (bit % 8);
            (d, "one-bit-from-baseline")
        }
        _ => {
            p.fill(&mut d);
            (d, "uniform")
        }
    }
}

#[derive(Default)]
struct UnitOut {
    evals: u64,
    sigs: BTreeSet<String>,
    viols: Vec<Violation>,
    harness: Option<String>,
    edges: u64,
    mems: u64,
    sample: Option<Value>,
    per_window: BTreeMap<String, Value>,
}

const CHUNK: u64 = 200;

fn pipeline_unit(ctx: &Ctx, si: usize, chunk: u64, n: u64, run_id: u64) -> UnitOut {
    let mut out = UnitOut::default();
    let (name, f) = pipelines()[si];
    let mut sigbuf = Box::new([0u8; 4627]);
    let mut pb = Prng::for_run(ctx.seed, &format!("c14-pipeline-base-{name}"), 0);
    let mut base = [0u8; 64];
    pb.fill(&mut base);
    let mut draw = Box::new(base);
    // untraced-equivalent warm-up (lazy CPU-feature detection in the hash crates), then baseline
    let _ = f(&draw, &MSG, &mut sigbuf, false);
    let bt = match f(&draw, &MSG, &mut sigbuf, false) {
        Ok(t) => t,
        Err(e) => {
            out.harness = Some(format!("C14: baseline pipeline run failed for {name}: {e}"));
            return out;
        }
    };
    // determinism of the instrument itself: the same input must give the same trace
    match f(&draw, &MSG, &mut sigbuf, false) {
        Ok(t) if t == bt => {}
        _ => {
            out.harness = Some(format!("C14: trace of {name} is not reproducible for identical input (harness nondeterminism)"));
            return out;
        }
    }
    if bt.edge_count < 1000 || bt.mem_count < 1000 {
        out.harness = Some(format!("C14: pipeline window of {name} recorded almost nothing ({} edges, {} memory events): instrumentation missing", bt.edge_count, bt.mem_count));
        return out;
    }
    out.per_window.insert(format!("pipeline/{name}"), trace_json(&bt));
    for r in (chunk * CHUNK)..((chunk + 1) * CHUNK).min(n) {
        let mut p = Prng::for_run(ctx.seed, &format!("c14-pipeline-{name}"), r);
        let (d, class) = pipeline_draw(&mut p, r, &base);
        *draw = d;
        out.evals += 1;
        match f(&draw, &MSG, &mut sigbuf, false) {
            Err(e) => {
                // the baseline succeeded: an RNG output for which the call fails has left the common path
                out.viols.push(Violation {
                    run: run_id,
                    invariant: "trace-diverges:control-flow".into(),
                    finding_key: format!("trace-diverges:pipeline:{name}:call-fails"),
                    body: json!({
                        "window": "pipeline", "set": name, "stream_class": class,
                        "baseline_draw": hx(&base), "draw": hx(&d), "message": hx(&MSG),
                        "observed": format!("keygen+sign returned Err({e:?}) for this RNG output while it succeeds for the baseline: the execution history depends on the value returned by the generator"),
                        "expected": "identical edge and load/store-address history for every RNG output",
                    }),
                });
                return out;
            }
            Ok(t) => {
                out.edges += t.edge_count;
                out.mems += t.mem_count;
                out.sigs.insert(format!("pipeline|{name}|{class}"));
                if t != bt {
                    let kind = what_differs(&bt, &t);
                    out.viols.push(Violation {
                        run: run_id,
                        invariant: format!("trace-diverges:{kind}"),
                        finding_key: format!("trace-diverges:pipeline:{name}:{kind}"),
                        body: json!({
                            "window": "pipeline", "set": name, "stream_class": class,
                            "baseline_draw": hx(&base), "draw": hx(&d), "message": hx(&MSG),
                            "baseline_trace": trace_json(&bt), "trace": trace_json(&t),
                            "observed": format!("{kind} history differs between two RNG outputs ({} vs {} edges, {} vs {} memory events)", bt.edge_count, t.edge_count, bt.mem_count, t.mem_count),
                            "expected": "identical edge and load/store-address history for every RNG output",
                        }),
                    });
                    if out.viols.len() >= 2 {
                        return out;
                    }
                }
                if r == 7 {
                    out.sample = Some(json!({"window": "pipeline", "set": name, "draw": hx(&d), "edges": t.edge_count, "mem_events": t.mem_count}));
                }
            }
        }
    }
    out
}

fn inp_json(k: &Kernel, inp: &Inp) -> Value {
    let mut v = json!({});
    for u in k.uses {
        match *u {
            "polys" => v["polys"] = json!(inp.polys[..k.n_polys.max(1)].iter().map(|p| p.to_vec()).collect::<Vec<_>>()),
            "polys_b" => v["polys_b"] = json!(inp.polys_b[..k.n_polys.max(1)].iter().map(|p| p.to_vec()).collect::<Vec<_>>()),
            "a64" => v["a64"] = json!(inp.a64.to_vec()),
            "bytes" => v["bytes"] = json!(hx(&inp.bytes)),
            _ => {}
        }
    }
    v
}

fn inp_load(k: &Kernel, v: &Value, inp: &mut Inp) {
    // public parts (matrix, counters) are regenerated by the kernel's own generator first
    let mut p = Prng::from_u64(1);
    (k.gen)(&mut p, 4, inp);
    if let Some(ps) = v["polys"].as_array() {
        for (i, poly) in ps.iter().enumerate().take(8) {
            for (j, c) in poly.as_array().map(|a| a.as_slice()).unwrap_or(&[]).iter().enumerate().take(256) {
                inp.polys[i][j] = c.as_i64().unwrap_or(0) as i32;
            }
        }
    }
    if let Some(ps) = v["polys_b"].as_array() {
        for (i, poly) in ps.iter().enumerate().take(8) {
            for (j, c) in poly.as_array().map(|a| a.as_slice()).unwrap_or(&[]).iter().enumerate().take(256) {
                inp.polys_b[i][j] = c.as_i64().unwrap_or(0) as i32;
            }
        }
    }
    if let Some(a) = v["a64"].as_array() {
        for (i, c) in a.iter().enumerate().take(256) {
            inp.a64[i] = c.as_i64().unwrap_or(0);
        }
    }
    if v["bytes"].is_string() {
        let b = unhx(&v["bytes"]);
        if b.len() == 64 {
            inp.bytes.copy_from_slice(&b);
        }
    }
}

fn kernel_unit(ctx: &Ctx, ki: usize, chunk: u64, n: u64, run_id: u64) -> UnitOut {
    let mut out = UnitOut::default();
    let ks = kernels();
    let k = &ks[ki];
    let mut inp = Inp::new_boxed();
    let mut outb = Out::new_boxed();
    let mut pb = Prng::for_run(ctx.seed, &format!("c14-kernel-base-{}", k.name), 0);
    (k.gen)(&mut pb, 0, &mut inp);
    let base_json = inp_json(k, &inp);
    let _ = (k.probe)(&inp, &mut outb, false);
    let bt = (k.probe)(&inp, &mut outb, false);
    if (k.probe)(&inp, &mut outb, false) != bt {
        out.harness = Some(format!("C14: trace of kernel {} is not reproducible for identical input", k.name));
        return out;
    }
    if bt.edge_count == 0 || bt.mem_count < 16 {
        out.harness = Some(format!("C14: kernel window {} recorded almost nothing ({} edges, {} memory events)", k.name, bt.edge_count, bt.mem_count));
        return out;
    }
    out.per_window.insert(format!("kernel/{}", k.name), trace_json(&bt));
    for r in (chunk * CHUNK)..((chunk + 1) * CHUNK).min(n) {
        let mut p = Prng::for_run(ctx.seed, &format!("c14-kernel-{}", k.name), r);
        let class = if r < 9 { r as u32 } else if r % 5 == 0 { 5 } else if r % 5 == 1 { 8 } else if r % 11 == 2 { 7 } else { 0 };
        (k.gen)(&mut p, class, &mut inp);
        out.evals += 1;
        let t = (k.probe)(&inp, &mut outb, false);
        out.edges += t.edge_count;
        out.mems += t.mem_count;
        out.sigs.insert(format!("kernel|{}|class{}", k.name, class));
        if t != bt {
            let kind = what_differs(&bt, &t);
            out.viols.push(Violation {
                run: run_id,
                invariant: format!("trace-diverges:{kind}"),
                finding_key: format!("trace-diverges:kernel:{}:{kind}", k.name),
                body: json!({
                    "window": "kernel", "kernel": k.name, "value_class": class,
                    "baseline_input": base_json, "input": inp_json(k, &inp),
                    "baseline_trace": trace_json(&bt), "trace": trace_json(&t),
                    "observed": format!("{kind} history differs between two secret inputs ({} vs {} edges, {} vs {} memory events)", bt.edge_count, t.edge_count, bt.mem_count, t.mem_count),
                    "expected": "identical edge and load/store-address history for every in-range input",
                }),
            });
            return out;
        }
        if r == 9 && ki % 8 == 0 {
            out.sample = Some(json!({"window": "kernel", "kernel": k.name, "value_class": class, "first_coefficients": inp.polys[0][..8].to_vec(), "edges": t.edge_count, "mem_events": t.mem_count}));
        }
    }
    out
}

fn run(ctx: &Ctx) -> i32 {
    let (n_pipe, n_kern): (u64, u64) = match ctx.tier {
        Tier::Quick => (ctx.scaled(4000), ctx.scaled(2000)),
        Tier::Thorough => (ctx.scaled(40_000), ctx.scaled(10_000)),
    };
    let ks = kernels();
    let mut units: Vec<(bool, usize, u64)> = Vec::new();
    for si in 0..pipelines().len() {
        for c in 0..((n_pipe + CHUNK - 1) / CHUNK) {
            units.push((true, si, c));
        }
    }
    for ki in 0..ks.len() {
        for c in 0..((n_kern + CHUNK - 1) / CHUNK) {
            units.push((false, ki, c));
        }
    }
    let outs = run_indexed(units.len(), ctx.workers, |i| {
        let (is_pipe, idx, c) = units[i];
        if is_pipe {
            pipeline_unit(ctx, idx, c, n_pipe, i as u64)
        } else {
            kernel_unit(ctx, idx, c, n_kern, i as u64)
        }
    });
    let mut evals = 0u64;
    let (mut edges, mut mems) = (0u64, 0u64);
    let mut sigs = BTreeSet::new();
    let mut viols = Vec::new();
    let mut samples = Vec::new();
    let mut windows: BTreeMap<String, Value> = BTreeMap::new();
    for o in outs {
        if let Some(h) = o.harness {
            harness_error(&h);
        }
        evals += o.evals;
        edges += o.edges;
        mems += o.mems;
        sigs.extend(o.sigs);
        viols.extend(o.viols);
        for (k, v) in o.per_window {
            // counts are address-free and must agree between units of the same window
            if let Some(prev) = windows.get(&k) {
                if prev["edges"] != v["edges"] || prev["mem_events"] != v["mem_events"] {
                    harness_error(&format!("C14: baseline event counts of {k} differ between worker units"));
                }
            } else {
                windows.insert(k, json!({"edges": v["edges"], "mem_events": v["mem_events"]}));
            }
        }
        if let Some(s) = o.sample {
            if samples.len() < 6 {
                samples.push(s);
            }
        }
    }
    let mut by_key: BTreeMap<String, Violation> = BTreeMap::new();
    for v in viols {
        by_key.entry(v.finding_key.clone()).or_insert(v);
    }
    let viols: Vec<Violation> = by_key.into_values().take(8).map(minimise).collect();
    let (code, new, kn) = report_violations(ctx, &viols);
    write_evidence(ctx, Evidence {
        level: "exploration",
        evaluations: evals,
        signatures: sigs.into_iter().collect(),
        rule: "Sentence 1: per parameter set, dudect_keygen_sign_with_rng is executed under an RNG device that replays 64 seeded bytes (uniform, all-00, all-FF, single-bit, xi fixed/rnd varied and vice versa, one bit away from the baseline) on a fixed public message; sentence 2: each secret-handling kernel is driven alone through the verif-hooks wrappers on seeded in-range coefficient vectors (uniform, all-min, all-max, alternating, zero, sprinkled extremes and domain boundary values such as 0, +-(q-1)/2, +-q, multiples of gamma2, small, sparse ternary, one boundary value in a uniform polynomial). Every window is one #[inline(never)] probe; compiler-inserted SanitizerCoverage probes record every control-flow edge and every load/store address; the (edge hash, edge count, address hash, address count) of each run must equal the baseline run of the same worker unit. A case is distinct by (window, stream or value class); it is non-trivial because the baseline window recorded a non-empty trace (checked).".into(),
        samples,
        exhaustive: false,
        extra: json!({
            "windows": windows,
            "pipeline_runs_per_set": n_pipe,
            "runs_per_kernel": n_kern,
            "kernels": ks.iter().map(|k| k.name).collect::<Vec<_>>(),
            "edge_events_compared": edges,
            "memory_events_compared": mems,
            "simulated_time_seam_events": edges + mems,
            "instrumented_guards": covrt::guards(),
            "faults_fired": {"rng_value_change": evals},
            "real_vs_stub": "real: fips204 (feature dudect, verif-hooks), sha3/keccak, sha2; stub: RNG device replaying pre-drawn bytes; observation: SanitizerCoverage edge + load/store callbacks inserted after LLVM's optimiser",
            "excluded_public_data_kernels": ["hint_bit_pack::<false>", "use_hint", "sample_in_ball", "rejection samplers", "bit_unpack failure path", "all of verification"],
        }),
        assumptions: vec![
            "observation level: LLVM IR after optimisation, before code generation; back-end decisions (cmov->branch) and microarchitectural timing are not observed".into(),
            "source-level if/else that LLVM if-converts to select is not a divergence at this level (and is constant-time at this level)".into(),
            "traces are compared only within one thread and call frame; every window is a single #[inline(never)] probe".into(),
        ],
        violations: new,
        known_findings: kn,
    });
    code
}

fn first_divergence(a: &[Event], b: &[Event]) -> String {
    let n = a.len().min(b.len());
    for i in 0..n {
        if a[i] != b[i] {
            let kn = |e: &Event| match e.kind { 0 => "edge", 1 => "load", _ => "store" };
            return format!(
                "first divergence at event {i}: baseline {} {:#x} (width {}), this run {} {:#x} (width {})",
                kn(&a[i]), a[i].value, a[i].width, kn(&b[i]), b[i].value, b[i].width
            );
        }
    }
    format!("histories agree on the first {n} events; lengths {} vs {}", a.len(), b.len())
}

/// Re-run both inputs of a replay body with full recording.
fn replay_body(body: &Value) -> Result<Option<(String, String, String)>, String> {
    match body["window"].as_str() {
        Some("pipeline") => {
            let name = body["set"].as_str().ok_or("no set")?;
            let pl = pipelines();
            let (_, f) = pl.iter().find(|(n, _)| *n == name).ok_or("set not compiled into this build")?;
            let to64 = |v: &Value| -> Result<[u8; 64], String> { unhx(v).try_into().map_err(|_| "draw must be 64 bytes".to_string()) };
            let base = Box::new(to64(&body["baseline_draw"])?);
            let d = Box::new(to64(&body["draw"])?);
            let msg = unhx(&body["message"]);
            let mut sig = Box::new([0u8; 4627]);
            let mut slot = Box::new(*base);
            let _ = f(&slot, &msg, &mut sig, false);
            let ta = f(&slot, &msg, &mut sig, true).map_err(|e| e.to_string())?;
            let la = covrt::take_log();
            *slot = *d;
            let tb = match f(&slot, &msg, &mut sig, true) {
                Ok(t) => t,
                Err(e) => return Ok(Some(("trace-diverges:control-flow".into(), format!("keygen+sign returned Err({e:?}) for this RNG output while it succeeds for the baseline"), "identical histories".into()))),
            };
            let lb = covrt::take_log();
            if ta == tb {
                return Ok(None);
            }
            let kind = what_differs(&ta, &tb);
            Ok(Some((format!("trace-diverges:{kind}"), first_divergence(&la, &lb), "identical histories".into())))
        }
        Some("kernel") => {
            let ks = kernels();
            let k = ks.iter().find(|k| Some(k.name) == body["kernel"].as_str()).ok_or("unknown kernel")?;
            let mut inp = Inp::new_boxed();
            let mut out = Out::new_boxed();
            inp_load(k, &body["baseline_input"], &mut inp);
            let _ = (k.probe)(&inp, &mut out, false);
            let ta = (k.probe)(&inp, &mut out, true);
            let la = covrt::take_log();
            inp_load(k, &body["input"], &mut inp);
            let tb = (k.probe)(&inp, &mut out, true);
            let lb = covrt::take_log();
            if ta == tb {
                return Ok(None);
            }
            let kind = what_differs(&ta, &tb);
            Ok(Some((format!("trace-diverges:{kind}"), first_divergence(&la, &lb), "identical histories".into())))
        }
        _ => Err("bad C14 replay body".into()),
    }
}

fn still(body: &Value) -> bool { matches!(replay_body(body), Ok(Some(_))) }

/// Shrink the distance between the diverging input and the baseline while the divergence persists.
fn minimise(v: Violation) -> Violation {
    let mut body = v.body.clone();
    if !still(&body) {
        return v;
    }
    if body["window"] == "pipeline" {
        let base = unhx(&body["baseline_draw"]);
        let mut d = unhx(&body["draw"]);
        for half in [0..32usize, 32..64usize] {
            let mut t = d.clone();
            t[half.clone()].copy_from_slice(&base[half.clone()]);
            let mut b2 = body.clone();
            b2["draw"] = json!(hx(&t));
            if t != base && still(&b2) {
                d = t;
                body = b2;
            }
        }
        for i in 0..64 {
            if d[i] == base[i] {
                continue;
            }
            let mut t = d.clone();
            t[i] = base[i];
            let mut b2 = body.clone();
            b2["draw"] = json!(hx(&t));
            if t != base && still(&b2) {
                d = t;
                body = b2;
            }
        }
        body["bytes_differing_from_baseline"] = json!((0..64).filter(|&i| d[i] != base[i]).count());
    } else {
        // revert coefficients to the baseline in halves, then singly within the last block
        for field in ["polys", "polys_b"] {
            let Some(polys) = body["input"][field].as_array().cloned() else { continue };
            for pi in 0..polys.len() {
                let mut b2 = body.clone();
                b2["input"][field][pi] = body["baseline_input"][field][pi].clone();
                if still(&b2) {
                    body = b2;
                }
            }
            for pi in 0..polys.len() {
                if body["input"][field][pi] == body["baseline_input"][field][pi] {
                    continue;
                }
                let mut width = 128usize;
                while width >= 1 {
                    let mut s = 0;
                    while s < 256 {
                        let mut b2 = body.clone();
                        let mut changed = false;
                        for j in s..(s + width).min(256) {
                            if b2["input"][field][pi][j] != body["baseline_input"][field][pi][j] {
                                b2["input"][field][pi][j] = body["baseline_input"][field][pi][j].clone();
                                changed = true;
                            }
                        }
                        if changed && still(&b2) {
                            body = b2;
                        }
                        s += width;
                    }
                    width /= 2;
                }
            }
        }
    }
    if let Ok(Some((_, obs, _))) = replay_body(&body) {
        body["first_divergence"] = json!(obs);
    }
    body["minimised"] = json!(true);
    Violation { body, ..v }
}

fn main() {
    let args: Vec<String> = std::env::args().collect();
    if args.len() < 2 {
        eprintln!("usage: fipsim-ct <c14|replay> [options]");
        std::process::exit(EXIT_HARNESS);
    }
    install_panic_hook();
    let mode = args[1].clone();
    let mut tier = match std::env::var("VERIF_TIER").as_deref() {
        Ok("thorough") => Tier::Thorough,
        _ => Tier::Quick,
    };
    let mut seed: u64 = std::env::var("VERIF_SEED").ok().and_then(|s| s.trim().parse::<i64>().ok()).map(|v| v as u64).unwrap_or(204);
    let mut flavour = "traced-O3".to_string();
    let mut evidence = None;
    let mut replay_dir = PathBuf::from("/verif/replays");
    let mut known = None;
    let mut workers = std::env::var("VERIF_WORKERS").ok().and_then(|s| s.parse().ok()).unwrap_or_else(|| std::thread::available_parallelism().map(|n| n.get()).unwrap_or(4));
    let mut scale = 100u64;
    let mut positional = Vec::new();
    let mut i = 2;
    while i < args.len() {
        let a = args[i].as_str();
        let mut val = || {
            i += 1;
            args.get(i).cloned().unwrap_or_else(|| harness_error("missing option value"))
        };
        match a {
            "--tier" => tier = if val() == "thorough" { Tier::Thorough } else { Tier::Quick },
            "--seed" => seed = val().parse::<i64>().map(|v| v as u64).unwrap_or_else(|_| harness_error("bad --seed")),
            "--flavour" => flavour = val(),
            "--evidence" => evidence = Some(PathBuf::from(val())),
            "--replay-dir" => replay_dir = PathBuf::from(val()),
            "--known" => known = Some(PathBuf::from(val())),
            "--workers" => workers = val().parse().unwrap_or_else(|_| harness_error("bad --workers")),
            "--scale" => scale = val().parse().unwrap_or_else(|_| harness_error("bad --scale")),
            _ => positional.push(args[i].clone()),
        }
        i += 1;
    }
    let ctx = Ctx { prop: "C14".into(), tier, seed, flavour, evidence, replay_dir, known, workers, start: Instant::now(), scale, extra: BTreeMap::new() };
    println!("fipsim-ct mode={} tier={} seed={} flavour={} workers={}", mode, ctx.tier.name(), ctx.seed, ctx.flavour, ctx.workers);
    let code = match mode.as_str() {
        "c14" => run(&ctx),
        "replay" => {
            let file = positional.first().cloned().unwrap_or_else(|| harness_error("replay needs a file"));
            let txt = std::fs::read_to_string(&file).unwrap_or_else(|e| harness_error(&format!("cannot read {file}: {e}")));
            let body: Value = serde_json::from_str(&txt).unwrap_or_else(|e| harness_error(&format!("replay file does not parse: {e}")));
            match replay_body(&body) {
                Err(e) => harness_error(&format!("replay: {e}")),
                Ok(None) => {
                    println!("REPLAY property=C14 file={file}: no divergence reproduced");
                    0
                }
                Ok(Some((inv, obs, _))) => {
                    println!("VIOLATION property=C14 replay={file}");
                    println!("  invariant={inv} {obs}");
                    1
                }
            }
        }
        _ => harness_error("unknown mode"),
    };
    println!("fipsim-ct done mode={} exit={} wall_s={:.1}", mode, code, ctx.wall());
    std::process::exit(code);
}
