//! Traced windows. Every window is its own `#[inline(never)]` function that receives inputs
//! prepared outside the window, so that exactly one machine-code copy of the library code is
//! executed per window and optimiser duplication of harness code cannot masquerade as a divergence.

use crate::prng::Prng;
use covrt::Trace;
use fips204::verif_hooks as vh;
use fips204::{CryptoRng, RngCore, RngError};

pub const Q: i32 = 8_380_417;
pub const G2_44: i32 = (Q - 1) / 88;
pub const G2_65: i32 = (Q - 1) / 32;

/// Input block of a kernel probe; lives at a fixed address for all runs of one unit.
#[repr(C, align(64))]
pub struct Inp {
    pub polys: [[i32; 256]; 8],
    pub polys_b: [[i32; 256]; 8],
    pub mat: [[[i32; 256]; 7]; 8],
    pub a64: [i64; 256],
    pub bytes: [u8; 64],
    pub mu: u16,
}

#[repr(C, align(64))]
pub struct Out {
    pub polys: [[i32; 256]; 8],
    pub polys_b: [[i32; 256]; 8],
    pub bytes: [u8; 1024],
    pub scalars: [i32; 256],
    pub flags: [bool; 256],
}

impl Inp {
    pub fn new_boxed() -> Box<Inp> {
        // SAFETY: all-zero is a valid value of every field
        unsafe { Box::<Inp>::new_zeroed().assume_init() }
    }
}

impl Out {
    pub fn new_boxed() -> Box<Out> {
        // SAFETY: all-zero is a valid value of every field (false == 0)
        unsafe { Box::<Out>::new_zeroed().assume_init() }
    }
}

fn sub<const N: usize>(p: &[[i32; 256]; 8]) -> &[[i32; 256]; N] { <&[[i32; 256]; N]>::try_from(&p[..N]).unwrap() }

fn sub_mut<const N: usize>(p: &mut [[i32; 256]; 8]) -> &mut [[i32; 256]; N] { <&mut [[i32; 256]; N]>::try_from(&mut p[..N]).unwrap() }

// ---------------------------------------------------------------------------------------------
// pipeline: dudect_keygen_sign_with_rng under a device that replays 64 pre-drawn bytes

pub struct FixedRng {
    buf: [u8; 64],
    pos: usize,
    pub overdrawn: bool,
}

impl RngCore for FixedRng {
    fn next_u32(&mut self) -> u32 { unimplemented!() }
    fn next_u64(&mut self) -> u64 { unimplemented!() }
    fn fill_bytes(&mut self, _d: &mut [u8]) { unimplemented!() }
    fn try_fill_bytes(&mut self, dest: &mut [u8]) -> Result<(), RngError> {
        let n = dest.len();
        if self.pos + n > 64 {
            self.overdrawn = true;
            dest.iter_mut().for_each(|b| *b = 0);
            return Ok(());
        }
        dest.copy_from_slice(&self.buf[self.pos..self.pos + n]);
        self.pos += n;
        Ok(())
    }
}
impl CryptoRng for FixedRng {}

macro_rules! pipeline_probe {
    ($name:ident, $m:ident, $feat:literal) => {
        #[cfg(feature = $feat)]
        #[allow(deprecated)]
        #[inline(never)]
        pub fn $name(draw: &[u8; 64], msg: &[u8], out: &mut [u8; 4627], full: bool) -> Result<Trace, &'static str> {
            let mut rng = FixedRng { buf: *draw, pos: 0, overdrawn: false };
            covrt::start(full);
            let r = fips204::$m::dudect_keygen_sign_with_rng(&mut rng, msg);
            let t = covrt::stop();
            if rng.overdrawn {
                return Err("library drew more than 64 bytes");
            }
            match r {
                Ok(s) => {
                    out[..s.len()].copy_from_slice(&s);
                    Ok(t)
                }
                Err(e) => Err(e),
            }
        }
    };
}
pipeline_probe!(pipeline_44, ml_dsa_44, "ml-dsa-44");
pipeline_probe!(pipeline_65, ml_dsa_65, "ml-dsa-65");
pipeline_probe!(pipeline_87, ml_dsa_87, "ml-dsa-87");

pub type PipelineFn = fn(&[u8; 64], &[u8], &mut [u8; 4627], bool) -> Result<Trace, &'static str>;

/// the pipelines of the parameter sets compiled into this build
pub fn pipelines() -> Vec<(&'static str, PipelineFn)> {
    #[allow(unused_mut)]
    let mut v: Vec<(&'static str, PipelineFn)> = Vec::new();
    #[cfg(feature = "ml-dsa-44")]
    v.push(("ml-dsa-44", pipeline_44));
    #[cfg(feature = "ml-dsa-65")]
    v.push(("ml-dsa-65", pipeline_65));
    #[cfg(feature = "ml-dsa-87")]
    v.push(("ml-dsa-87", pipeline_87));
    v
}

// ---------------------------------------------------------------------------------------------
// kernels alone

pub struct Kernel {
    pub name: &'static str,
    /// which parts of `Inp` the generator fills and the probe reads (for replay files)
    pub uses: &'static [&'static str],
    pub n_polys: usize,
    pub gen: fn(&mut Prng, u32, &mut Inp),
    pub probe: fn(&Inp, &mut Out, bool) -> Trace,
}

/// Boundary values of the kernels' domains and codomains: a secret-dependent fast path or early
/// exit typically triggers exactly on one of these (0, +-1, +-(q-1)/2, +-q, multiples of gamma2, ...).
const SPECIAL: [i64; 38] = [
    8_285_185, 8_285_184, 8_118_529, 8_118_528, -8_285_185, -8_118_529, 8_189_953, 7_856_641, // q-gamma2 (the documented Decompose corner), q-1-gamma2, q-2*gamma2
    0, 1, -1, 2, -2, 4, -4,
    4_190_208, -4_190_208, 4_190_209, -4_190_209, // +-(q-1)/2, +-(q+1)/2
    8_380_416, -8_380_416, 8_380_417, -8_380_417, // +-(q-1), +-q
    95_232, -95_232, 190_464, 261_888, -261_888, 523_776, // gamma2, 2*gamma2
    4_096, -4_095, 8_191, 131_072, -131_071, 524_288, -524_287, // 2^12, 2^13-1, gamma1
    16_760_834, -16_760_834, // +-2q
];

/// value classes: 0 uniform, 1 all lo, 2 all hi, 3 alternating lo/hi, 4 zero, 5 uniform with
/// sprinkled extremes and boundary values, 6 small magnitude, 7 sparse ternary (tau-like support),
/// 8 one boundary value in an otherwise uniform polynomial
fn fill(p: &mut Prng, class: u32, polys: &mut [[i32; 256]], lo: i64, hi: i64) {
    let span = (hi - lo + 1) as u64;
    let special = |p: &mut Prng| -> i64 { (*p.pick(&SPECIAL)).clamp(lo, hi) };
    for (pi, poly) in polys.iter_mut().enumerate() {
        let one_pos = p.usize_below(256);
        for (i, c) in poly.iter_mut().enumerate() {
            *c = match class {
                1 => lo,
                2 => hi,
                3 => if (i + pi) % 2 == 0 { lo } else { hi },
                4 => 0i64.clamp(lo, hi),
                5 => match p.below(8) {
                    0 => lo,
                    1 => hi,
                    2 | 3 => special(p),
                    _ => lo + p.below(span) as i64,
                },
                6 => (p.below(9) as i64 - 4).clamp(lo, hi),
                7 => if p.below(5) == 0 { (p.below(3) as i64 - 1).clamp(lo, hi) } else { 0i64.clamp(lo, hi) },
                8 => if i == one_pos { special(p) } else { lo + p.below(span) as i64 },
                _ => lo + p.below(span) as i64,
            } as i32;
        }
    }
}

const WIDE: i64 = 2_143_289_343;

macro_rules! probe {
    ($name:ident, |$inp:ident, $out:ident| $body:block) => {
        #[inline(never)]
        pub fn $name($inp: &Inp, $out: &mut Out, full: bool) -> Trace {
            covrt::start(full);
            $body
            covrt::stop()
        }
    };
}

// -- norms
macro_rules! norm_kernel {
    ($probe:ident, $gen:ident, $n:expr) => {
        probe!($probe, |inp, out| { out.scalars[0] = vh::infinity_norm::<$n>(sub::<$n>(&inp.polys)); });
        fn $gen(p: &mut Prng, class: u32, inp: &mut Inp) { fill(p, class, &mut inp.polys[..$n], -(Q as i64 - 1), Q as i64 - 1); }
    };
}
norm_kernel!(p_norm4, g_norm4, 4);
norm_kernel!(p_norm5, g_norm5, 5);
norm_kernel!(p_norm6, g_norm6, 6);
norm_kernel!(p_norm7, g_norm7, 7);
norm_kernel!(p_norm8, g_norm8, 8);

// -- scalar reductions over 256 coefficients
fn g_wide(p: &mut Prng, class: u32, inp: &mut Inp) { fill(p, class, &mut inp.polys[..1], -WIDE, WIDE); }
fn g_q(p: &mut Prng, class: u32, inp: &mut Inp) { fill(p, class, &mut inp.polys[..1], -(Q as i64 - 1), Q as i64 - 1); }
probe!(p_center_mod, |inp, out| { for i in 0..256 { out.scalars[i] = vh::center_mod(inp.polys[0][i]); } });
probe!(p_partial_reduce32, |inp, out| { for i in 0..256 { out.scalars[i] = vh::partial_reduce32(inp.polys[0][i]); } });
probe!(p_full_reduce32, |inp, out| { for i in 0..256 { out.scalars[i] = vh::full_reduce32(inp.polys[0][i]); } });

fn g_a64_mont(p: &mut Prng, class: u32, inp: &mut Inp) {
    let (lo, hi) = (-17_996_808_479_301_632i64, 17_996_808_470_921_215i64);
    for (i, a) in inp.a64.iter_mut().enumerate() {
        *a = match class {
            1 => lo,
            2 => hi,
            3 => if i % 2 == 0 { lo } else { hi },
            4 => 0,
            _ => lo + (p.next_u64() % ((hi - lo) as u64 + 1)) as i64,
        };
    }
}
fn g_a64_pr64(p: &mut Prng, class: u32, inp: &mut Inp) {
    let b = 67_058_538i64;
    for (i, a) in inp.a64.iter_mut().enumerate() {
        let x = match class {
            1 => -b,
            2 => b,
            3 => if i % 2 == 0 { -b } else { b },
            4 => 0,
            _ => -b + p.below((2 * b + 1) as u64) as i64,
        };
        *a = x << 32;
    }
}
probe!(p_mont_reduce, |inp, out| { for i in 0..256 { out.scalars[i] = vh::mont_reduce(inp.a64[i]); } });
probe!(p_partial_reduce64, |inp, out| { for i in 0..256 { out.scalars[i] = vh::partial_reduce64(inp.a64[i]); } });

fn g_tomont(p: &mut Prng, class: u32, inp: &mut Inp) { fill(p, class, &mut inp.polys[..8], -67_058_538, 67_058_538); }
probe!(p_to_mont4, |inp, out| { *sub_mut::<4>(&mut out.polys) = vh::to_mont::<4>(sub::<4>(&inp.polys)); });
probe!(p_to_mont8, |inp, out| { *sub_mut::<8>(&mut out.polys) = vh::to_mont::<8>(sub::<8>(&inp.polys)); });

// -- rounding
fn g_zq(p: &mut Prng, class: u32, inp: &mut Inp) { fill(p, class, &mut inp.polys[..8], 0, Q as i64 - 1); }
macro_rules! p2r_kernel {
    ($probe:ident, $n:expr) => {
        probe!($probe, |inp, out| {
            let (a, b) = vh::power2round::<$n>(sub::<$n>(&inp.polys));
            *sub_mut::<$n>(&mut out.polys) = a;
            *sub_mut::<$n>(&mut out.polys_b) = b;
        });
    };
}
p2r_kernel!(p_power2round4, 4);
p2r_kernel!(p_power2round6, 6);
p2r_kernel!(p_power2round8, 8);

fn g_2q(p: &mut Prng, class: u32, inp: &mut Inp) { fill(p, class, &mut inp.polys[..1], -2 * (Q as i64), 2 * (Q as i64)); }
macro_rules! decomp_kernels {
    ($pd:ident, $ph:ident, $pl:ident, $pm:ident, $g2:expr) => {
        probe!($pd, |inp, out| { for i in 0..256 { let (a, b) = vh::decompose($g2, inp.polys[0][i]); out.scalars[i] = a; out.polys[0][i] = b; } });
        probe!($ph, |inp, out| { for i in 0..256 { out.scalars[i] = vh::high_bits($g2, inp.polys[0][i]); } });
        probe!($pl, |inp, out| { for i in 0..256 { out.scalars[i] = vh::low_bits($g2, inp.polys[0][i]); } });
        probe!($pm, |inp, out| { for i in 0..256 { out.flags[i] = vh::make_hint($g2, inp.polys_b[0][i], inp.polys[0][i]); } });
    };
}
decomp_kernels!(p_decompose_44, p_high_bits_44, p_low_bits_44, p_make_hint_44, G2_44);
decomp_kernels!(p_decompose_65, p_high_bits_65, p_low_bits_65, p_make_hint_65, G2_65);
fn g_hint(p: &mut Prng, class: u32, inp: &mut Inp) {
    // call-site shape: z = Q - ct0 (no reduce) in (0, 2Q), r partially reduced in (-Q, Q)
    fill(p, class, &mut inp.polys[..1], -(Q as i64 - 1), Q as i64 - 1);
    fill(p, if class == 0 { 0 } else { (class + 1) % 9 }, &mut inp.polys_b[..1], 0, 2 * (Q as i64));
}

// -- packing of secret polynomials
macro_rules! pack_kernel {
    ($probe:ident, $gen:ident, $a:expr, $b:expr, $len:expr) => {
        probe!($probe, |inp, out| { vh::bit_pack(&inp.polys[0], $a, $b, &mut out.bytes[..$len]); });
        fn $gen(p: &mut Prng, class: u32, inp: &mut Inp) { fill(p, class, &mut inp.polys[..1], -($a as i64), $b as i64); }
    };
}
pack_kernel!(p_bit_pack_eta2, g_bit_pack_eta2, 2, 2, 96);
pack_kernel!(p_bit_pack_eta4, g_bit_pack_eta4, 4, 4, 128);
pack_kernel!(p_bit_pack_t0, g_bit_pack_t0, (1 << 12) - 1, 1 << 12, 416);
pack_kernel!(p_bit_pack_z17, g_bit_pack_z17, (1 << 17) - 1, 1 << 17, 576);
pack_kernel!(p_bit_pack_z19, g_bit_pack_z19, (1 << 19) - 1, 1 << 19, 640);

// -- transforms
fn g_ntt_eta(p: &mut Prng, class: u32, inp: &mut Inp) { fill(p, class, &mut inp.polys[..8], -4, 4); }
fn g_ntt_g1(p: &mut Prng, class: u32, inp: &mut Inp) { fill(p, class, &mut inp.polys[..8], -(1 << 19) + 1, 1 << 19); }
fn g_ntt_q(p: &mut Prng, class: u32, inp: &mut Inp) { fill(p, class, &mut inp.polys[..8], 0, Q as i64 - 1); }
fn g_invntt(p: &mut Prng, class: u32, inp: &mut Inp) { fill(p, class, &mut inp.polys[..8], -7 * (Q as i64), 7 * (Q as i64)); }
macro_rules! ntt_kernels {
    ($pn:ident, $pi:ident, $pa:ident, $n:expr) => {
        probe!($pn, |inp, out| { *sub_mut::<$n>(&mut out.polys) = vh::ntt::<$n>(sub::<$n>(&inp.polys)); });
        probe!($pi, |inp, out| { *sub_mut::<$n>(&mut out.polys) = vh::inv_ntt::<$n>(sub::<$n>(&inp.polys)); });
        probe!($pa, |inp, out| { *sub_mut::<$n>(&mut out.polys) = vh::add_vector_ntt::<$n>(sub::<$n>(&inp.polys), sub::<$n>(&inp.polys_b)); });
    };
}
ntt_kernels!(p_ntt1, p_inv_ntt1, p_addv1, 1);
ntt_kernels!(p_ntt4, p_inv_ntt4, p_addv4, 4);
ntt_kernels!(p_ntt5, p_inv_ntt5, p_addv5, 5);
ntt_kernels!(p_ntt6, p_inv_ntt6, p_addv6, 6);
ntt_kernels!(p_ntt7, p_inv_ntt7, p_addv7, 7);
ntt_kernels!(p_ntt8, p_inv_ntt8, p_addv8, 8);
fn g_addv(p: &mut Prng, class: u32, inp: &mut Inp) {
    fill(p, class, &mut inp.polys[..8], 0, Q as i64 - 1);
    fill(p, class, &mut inp.polys_b[..8], -4, 4);
}

fn g_matvec(p: &mut Prng, class: u32, inp: &mut Inp) {
    // the matrix is public (expanded from rho): fixed per unit by drawing it from a fixed stream
    let mut pm = Prng::from_u64(0x6d61_7472_6978);
    for row in inp.mat.iter_mut() {
        fill(&mut pm, 0, &mut row[..], 0, Q as i64 - 1);
    }
    fill(p, class, &mut inp.polys[..8], -8 * (Q as i64) + 1, 8 * (Q as i64) - 1);
}
macro_rules! matvec_kernel {
    ($probe:ident, $k:expr, $l:expr) => {
        probe!($probe, |inp, out| {
            let a: &[[[i32; 256]; $l]; $k] = unsafe { &*(inp.mat.as_ptr() as *const [[[i32; 256]; $l]; $k]) };
            *sub_mut::<$k>(&mut out.polys) = vh::mat_vec_mul::<$k, $l>(a, sub::<$l>(&inp.polys));
        });
    };
}
// note: the reinterpretation above reads the first K*L polynomials of `mat` as a K x L matrix;
// which public values it holds is irrelevant, only that they are the same for every run.
matvec_kernel!(p_matvec_4x4, 4, 4);
matvec_kernel!(p_matvec_6x5, 6, 5);
matvec_kernel!(p_matvec_8x7, 8, 7);

fn g_mask(p: &mut Prng, class: u32, inp: &mut Inp) {
    match class {
        1 => inp.bytes = [0u8; 64],
        2 => inp.bytes = [0xFF; 64],
        _ => p.fill(&mut inp.bytes),
    }
    inp.mu = 0;
}
probe!(p_expand_mask_4_17, |inp, out| { *sub_mut::<4>(&mut out.polys) = vh::expand_mask::<4>(1 << 17, &inp.bytes, inp.mu); });
probe!(p_expand_mask_5_19, |inp, out| { *sub_mut::<5>(&mut out.polys) = vh::expand_mask::<5>(1 << 19, &inp.bytes, inp.mu); });
probe!(p_expand_mask_7_19, |inp, out| { *sub_mut::<7>(&mut out.polys) = vh::expand_mask::<7>(1 << 19, &inp.bytes, inp.mu); });

macro_rules! k {
    ($name:literal, $uses:expr, $n:expr, $gen:ident, $probe:ident) => {
        Kernel { name: $name, uses: $uses, n_polys: $n, gen: $gen, probe: $probe }
    };
}

pub fn kernels() -> Vec<Kernel> {
    const P: &[&str] = &["polys"];
    const PB: &[&str] = &["polys", "polys_b"];
    const A: &[&str] = &["a64"];
    const M: &[&str] = &["polys", "mat"];
    const B: &[&str] = &["bytes"];
    vec![
        k!("infinity_norm<4>", P, 4, g_norm4, p_norm4),
        k!("infinity_norm<5>", P, 5, g_norm5, p_norm5),
        k!("infinity_norm<6>", P, 6, g_norm6, p_norm6),
        k!("infinity_norm<7>", P, 7, g_norm7, p_norm7),
        k!("infinity_norm<8>", P, 8, g_norm8, p_norm8),
        k!("center_mod", P, 1, g_wide, p_center_mod),
        k!("center_mod/q-range", P, 1, g_q, p_center_mod),
        k!("partial_reduce32", P, 1, g_wide, p_partial_reduce32),
        k!("full_reduce32", P, 1, g_wide, p_full_reduce32),
        k!("mont_reduce", A, 0, g_a64_mont, p_mont_reduce),
        k!("partial_reduce64", A, 0, g_a64_pr64, p_partial_reduce64),
        k!("to_mont<4>", P, 4, g_tomont, p_to_mont4),
        k!("to_mont<8>", P, 8, g_tomont, p_to_mont8),
        k!("power2round<4>", P, 4, g_zq, p_power2round4),
        k!("power2round<6>", P, 6, g_zq, p_power2round6),
        k!("power2round<8>", P, 8, g_zq, p_power2round8),
        k!("decompose/gamma2=(q-1)/88", P, 1, g_2q, p_decompose_44),
        k!("high_bits/gamma2=(q-1)/88", P, 1, g_2q, p_high_bits_44),
        k!("low_bits/gamma2=(q-1)/88", P, 1, g_2q, p_low_bits_44),
        k!("make_hint/gamma2=(q-1)/88", PB, 1, g_hint, p_make_hint_44),
        k!("decompose/gamma2=(q-1)/32", P, 1, g_2q, p_decompose_65),
        k!("high_bits/gamma2=(q-1)/32", P, 1, g_2q, p_high_bits_65),
        k!("low_bits/gamma2=(q-1)/32", P, 1, g_2q, p_low_bits_65),
        k!("make_hint/gamma2=(q-1)/32", PB, 1, g_hint, p_make_hint_65),
        k!("bit_pack(eta=2)", P, 1, g_bit_pack_eta2, p_bit_pack_eta2),
        k!("bit_pack(eta=4)", P, 1, g_bit_pack_eta4, p_bit_pack_eta4),
        k!("bit_pack(t0)", P, 1, g_bit_pack_t0, p_bit_pack_t0),
        k!("bit_pack(z,gamma1=2^17)", P, 1, g_bit_pack_z17, p_bit_pack_z17),
        k!("bit_pack(z,gamma1=2^19)", P, 1, g_bit_pack_z19, p_bit_pack_z19),
        k!("ntt<1>/challenge-like", P, 1, g_ntt_eta, p_ntt1),
        k!("ntt<4>/eta", P, 4, g_ntt_eta, p_ntt4),
        k!("ntt<4>/gamma1", P, 4, g_ntt_g1, p_ntt4),
        k!("ntt<5>/gamma1", P, 5, g_ntt_g1, p_ntt5),
        k!("ntt<6>/q", P, 6, g_ntt_q, p_ntt6),
        k!("ntt<7>/gamma1", P, 7, g_ntt_g1, p_ntt7),
        k!("ntt<8>/eta", P, 8, g_ntt_eta, p_ntt8),
        k!("inv_ntt<4>", P, 4, g_invntt, p_inv_ntt4),
        k!("inv_ntt<5>", P, 5, g_invntt, p_inv_ntt5),
        k!("inv_ntt<6>", P, 6, g_invntt, p_inv_ntt6),
        k!("inv_ntt<7>", P, 7, g_invntt, p_inv_ntt7),
        k!("inv_ntt<8>", P, 8, g_invntt, p_inv_ntt8),
        k!("add_vector_ntt<4>", PB, 4, g_addv, p_addv4),
        k!("add_vector_ntt<6>", PB, 6, g_addv, p_addv6),
        k!("add_vector_ntt<8>", PB, 8, g_addv, p_addv8),
        k!("mat_vec_mul<4,4>", M, 4, g_matvec, p_matvec_4x4),
        k!("mat_vec_mul<6,5>", M, 5, g_matvec, p_matvec_6x5),
        k!("mat_vec_mul<8,7>", M, 7, g_matvec, p_matvec_8x7),
        k!("expand_mask<4>/gamma1=2^17", B, 0, g_mask, p_expand_mask_4_17),
        k!("expand_mask<5>/gamma1=2^19", B, 0, g_mask, p_expand_mask_5_19),
        k!("expand_mask<7>/gamma1=2^19", B, 0, g_mask, p_expand_mask_7_19),
    ]
}
