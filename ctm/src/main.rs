//! ctm — machine-level companion of the C14 trace check: runs the constant-time test entry point once on
//! 64 bytes read from stdin (one read(2), constant trace) so that the whole process can be traced by an
//! external instruction/memory tracer (valgrind --tool=lackey --trace-mem=yes).
use fips204::{CryptoRng, RngCore, RngError};
use std::io::Read;

struct Fixed {
    buf: [u8; 64],
    pos: usize,
}
impl RngCore for Fixed {
    fn next_u32(&mut self) -> u32 { unimplemented!() }
    fn next_u64(&mut self) -> u64 { unimplemented!() }
    fn fill_bytes(&mut self, _d: &mut [u8]) { unimplemented!() }
    fn try_fill_bytes(&mut self, dest: &mut [u8]) -> Result<(), RngError> {
        let n = dest.len();
        dest.copy_from_slice(&self.buf[self.pos..self.pos + n]);
        self.pos += n;
        Ok(())
    }
}
impl CryptoRng for Fixed {}

static mut MARK: u64 = 0;

/// A recognisable pattern in the memory trace (stores of width 1, 2, 4, 8 to one address) that brackets
/// the window to compare; everything outside it (process start-up, exit) is ignored by the comparer.
#[inline(never)]
fn mark() {
    // SAFETY: single-threaded; MARK is only ever written here
    unsafe {
        let p = core::ptr::addr_of_mut!(MARK);
        core::ptr::write_volatile(p as *mut u8, 1);
        core::ptr::write_volatile(p as *mut u16, 2);
        core::ptr::write_volatile(p as *mut u32, 3);
        core::ptr::write_volatile(p, 4);
    }
}

#[allow(deprecated)]
fn main() {
    let set = std::env::args().nth(1).unwrap_or_default();
    let mut buf = [0u8; 64];
    std::io::stdin().read_exact(&mut buf).expect("64 bytes on stdin");
    let mut rng = Fixed { buf, pos: 0 };
    let msg = [0u8, 1, 2, 3, 4, 5, 6, 7];
    mark();
    // the result is folded into the exit status with a data-independent computation
    let acc: u8 = match set.as_str() {
        "44" => fips204::ml_dsa_44::dudect_keygen_sign_with_rng(&mut rng, &msg).map(|s| s.iter().fold(0u8, |a, b| a ^ b)).unwrap_or(0),
        "65" => fips204::ml_dsa_65::dudect_keygen_sign_with_rng(&mut rng, &msg).map(|s| s.iter().fold(0u8, |a, b| a ^ b)).unwrap_or(0),
        _ => fips204::ml_dsa_87::dudect_keygen_sign_with_rng(&mut rng, &msg).map(|s| s.iter().fold(0u8, |a, b| a ^ b)).unwrap_or(0),
    };
    mark();
    std::process::exit((acc & 1) as i32 * 0);
}
