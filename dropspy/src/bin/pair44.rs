include!("../case.rs");
dropspy_case!(ml_dsa_44, "ml-dsa-44/pair/box", (PublicKey, PrivateKey), |seed| KG::keygen_from_seed(seed));
