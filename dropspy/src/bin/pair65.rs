include!("../case.rs");
dropspy_case!(ml_dsa_65, "ml-dsa-65/pair/box", (PublicKey, PrivateKey), |seed| KG::keygen_from_seed(seed));
