include!("../case.rs");
dropspy_case!(ml_dsa_87, "ml-dsa-87/pair/box", (PublicKey, PrivateKey), |seed| KG::keygen_from_seed(seed));
