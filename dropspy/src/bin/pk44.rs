include!("../case.rs");
dropspy_case!(ml_dsa_44, "ml-dsa-44/pk/box", PublicKey, |seed| KG::keygen_from_seed(seed).0);
