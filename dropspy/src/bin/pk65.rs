include!("../case.rs");
dropspy_case!(ml_dsa_65, "ml-dsa-65/pk/box", PublicKey, |seed| KG::keygen_from_seed(seed).0);
