include!("../case.rs");
dropspy_case!(ml_dsa_87, "ml-dsa-87/pk/box", PublicKey, |seed| KG::keygen_from_seed(seed).0);
