include!("../case.rs");
dropspy_case!(ml_dsa_87, "ml-dsa-87/sk/box", PrivateKey, |seed| KG::keygen_from_seed(seed).1);
