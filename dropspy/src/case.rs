// dropspy case body (included by one tiny binary per (parameter set, object type)).
//
// ONE drop site per key type per program: whether the optimiser deletes a non-volatile wipe depends on
// the drop glue being inlined next to the deallocation, which is what happens in a small application that
// drops its key once. The old memory is read back through /proc/self/mem (file I/O, opaque to the compiler).
use fips204::traits::KeyGen;
use std::fs::File;
use std::os::unix::fs::FileExt;

/// bytes at the start of a freed heap block that the allocator itself may overwrite (free-list links)
const HEAP_SLACK: usize = 64;

macro_rules! dropspy_case {
    ($m:ident, $name:literal, $ty:ty, $make:expr) => {
        fn main() {
            use fips204::$m::*;
            let mut seed = [0x5Au8; 32];
            for (i, a) in std::env::args().enumerate() {
                seed[i % 32] ^= a.len() as u8; // keep the seed opaque to the optimiser
            }
            let f = File::open("/proc/self/mem").expect("open /proc/self/mem");
            let size = core::mem::size_of::<$ty>();
            // the read-back buffer exists before the key does, so reading allocates nothing
            let mut buf = vec![0xFFu8; size];
            let make: fn(&[u8; 32]) -> $ty = $make;
            let b: Box<$ty> = Box::new(make(&seed));
            let addr = &*b as *const $ty as usize;
            let live = {
                // SAFETY: reading the live object's bytes through a raw pointer before the drop
                let p = addr as *const u8;
                (0..size).filter(|&i| unsafe { core::ptr::read_volatile(p.add(i)) } != 0).count()
            };
            drop(b); // the key is dropped here, then its block goes back to the allocator
            f.read_exact_at(&mut buf, addr as u64).expect("read own memory");
            let nz = buf[HEAP_SLACK..].iter().filter(|&&x| x != 0).count();
            let first = buf[HEAP_SLACK..].iter().position(|&x| x != 0).map(|p| (p + HEAP_SLACK) as i64).unwrap_or(-1);
            println!("CASE {} size={} live_nonzero={} nonzero={} first={}", $name, size, live, nz, first);
        }
    };
}
