//! dropspy — C16 in the build where erasure is most fragile.
//!
//! A key is dropped the way applications drop it (Box freed, or a local going out of scope); nothing in
//! the program reads the memory afterwards through the language, so a wipe that is not volatile is a dead
//! store the optimiser may delete. The old memory is then read back through /proc/self/mem (file I/O, opaque
//! to the compiler). Output: one line per case `CASE <name> size=<n> nonzero=<n> first=<off>`.
use fips204::traits::{KeyGen, SerDes, Signer};
use std::fs::File;
use std::hint::black_box;
use std::os::unix::fs::FileExt;

/// bytes at the start of a freed heap block that the allocator itself may overwrite (free-list links)
const HEAP_SLACK: usize = 64;

fn read_mem(f: &File, addr: usize, buf: &mut [u8]) -> bool { f.read_exact_at(buf, addr as u64).is_ok() }

fn report(name: &str, size: usize, skip: usize, buf: &[u8]) {
    let nz = buf[skip..size].iter().filter(|&&b| b != 0).count();
    let first = buf[skip..size].iter().position(|&b| b != 0).map(|p| (p + skip) as i64).unwrap_or(-1);
    println!("CASE {name} size={size} nonzero={nz} first={first}");
}

macro_rules! cases {
    ($m:ident, $name:literal, $f:ident, $buf:ident) => {{
        use fips204::$m::{PrivateKey, PublicKey, KG};
        let seed = [0x5Au8; 32];
        // --- heap: Box<PrivateKey> from key generation
        {
            let (_pk, sk) = KG::keygen_from_seed(&seed);
            let b = Box::new(sk);
            let addr = &*b as *const PrivateKey as usize;
            let size = core::mem::size_of::<PrivateKey>();
            black_box(&b);
            drop(b);
            if read_mem($f, addr, &mut $buf[..size]) { report(concat!($name, "/sk/generated/box"), size, HEAP_SLACK, &$buf); }
        }
        // --- heap: Box<PrivateKey> from deserialisation
        {
            let (_pk, sk) = KG::keygen_from_seed(&seed);
            let bytes = sk.into_bytes();
            let b = Box::new(PrivateKey::try_from_bytes(bytes).expect("round trip"));
            let addr = &*b as *const PrivateKey as usize;
            let size = core::mem::size_of::<PrivateKey>();
            black_box(&b);
            drop(b);
            if read_mem($f, addr, &mut $buf[..size]) { report(concat!($name, "/sk/deserialised/box"), size, HEAP_SLACK, &$buf); }
        }
        // --- heap: Box<PublicKey> generated and derived
        {
            let (pk, sk) = KG::keygen_from_seed(&seed);
            let b = Box::new(pk);
            let addr = &*b as *const PublicKey as usize;
            let size = core::mem::size_of::<PublicKey>();
            black_box(&b);
            drop(b);
            if read_mem($f, addr, &mut $buf[..size]) { report(concat!($name, "/pk/generated/box"), size, HEAP_SLACK, &$buf); }
            let b = Box::new(sk.get_public_key());
            let addr = &*b as *const PublicKey as usize;
            black_box(&b);
            drop(b);
            if read_mem($f, addr, &mut $buf[..size]) { report(concat!($name, "/pk/derived/box"), size, HEAP_SLACK, &$buf); }
        }
        // --- heap: Box<(PublicKey, PrivateKey)> as key generation hands the pair out
        {
            let b = Box::new(KG::keygen_from_seed(&seed));
            let addr = &*b as *const (PublicKey, PrivateKey) as usize;
            let size = core::mem::size_of::<(PublicKey, PrivateKey)>();
            black_box(&b);
            drop(b);
            if read_mem($f, addr, &mut $buf[..size]) { report(concat!($name, "/pair/generated/box"), size, HEAP_SLACK, &$buf); }
        }
    }};
}

fn main() {
    let f = File::open("/proc/self/mem").expect("open /proc/self/mem");
    let f = &f;
    // the read-back buffer exists before any key does, so reading allocates nothing
    let mut buf = vec![0u8; 64 * 1024];
    cases!(ml_dsa_44, "ml-dsa-44", f, buf);
    cases!(ml_dsa_65, "ml-dsa-65", f, buf);
    cases!(ml_dsa_87, "ml-dsa-87", f, buf);
    println!("DONE");
}
