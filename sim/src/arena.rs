//! Object arena: key objects live in simulator-owned raw allocations so that the bytes of a slot
//! can be inspected after the object's destruction (the "crash" of an object).

use std::mem::{size_of, MaybeUninit};
use std::ptr;

#[derive(Clone, Debug)]
pub struct Window {
    pub what: &'static str,
    pub offset: usize,
    pub len: usize,
}

#[derive(Clone, Debug)]
pub struct DropObs {
    /// e.g. "ml-dsa-44/sk/from_bytes/sign,verify/tuple"
    pub label: String,
    pub window: &'static str,
    pub size: usize,
    pub nonzero_before: usize,
    pub needle_found: bool,
    pub nonzero_after: usize,
    pub first_nonzero_after: Option<usize>,
}

/// Address window of `inner` relative to the container `outer` that holds it.
pub fn window_of<C, T>(outer: &C, inner: &T, what: &'static str) -> Window {
    let base = outer as *const C as usize;
    let at = inner as *const T as usize;
    assert!(at >= base && at + size_of::<T>() <= base + size_of::<C>(), "window outside container");
    Window { what, offset: at - base, len: size_of::<T>() }
}

/// Move `val` into a fresh slot, locate the key objects inside it, destroy it in place, then read
/// every byte of each key window through the same raw pointer.
pub fn drop_and_inspect<C>(
    label: &str, val: C, locate: impl FnOnce(&C) -> Vec<Window>, needle: &[u8],
) -> Vec<DropObs> {
    let raw: *mut C = Box::into_raw(Box::new(val));
    // SAFETY: raw is a valid, initialised, uniquely owned allocation of C.
    let windows = locate(unsafe { &*raw });
    let base = raw as *const u8;
    let snap = |w: &Window| -> Vec<u8> {
        // SAFETY: the window lies inside the allocation (checked in window_of); key structs have
        // no padding so every byte is initialised before the drop, and written by zeroize after.
        (0..w.len).map(|i| unsafe { ptr::read_volatile(base.add(w.offset + i)) }).collect()
    };
    let before: Vec<Vec<u8>> = windows.iter().map(snap).collect();
    // SAFETY: destroyed exactly once here; memory stays allocated.
    unsafe { ptr::drop_in_place(raw) };
    let after: Vec<Vec<u8>> = windows.iter().map(snap).collect();
    // SAFETY: release the allocation without running Drop a second time.
    drop(unsafe { Box::from_raw(raw as *mut MaybeUninit<C>) });
    windows
        .iter()
        .zip(before.iter().zip(after.iter()))
        .map(|(w, (b, a))| DropObs {
            label: label.to_string(),
            window: w.what,
            size: w.len,
            nonzero_before: b.iter().filter(|&&x| x != 0).count(),
            needle_found: needle.is_empty() || b.windows(needle.len()).any(|x| x == needle),
            nonzero_after: a.iter().filter(|&&x| x != 0).count(),
            first_nonzero_after: a.iter().position(|&x| x != 0),
        })
        .collect()
}
