//! C05 — any single-bit change invalidates a signature.
//!
//! Channel fault model: single-bit rot of each artefact that crosses the documented
//! storage/transmission boundary (signature, serialised public key, message, context). Per tuple
//! the decision is exhaustive over every bit position.

use crate::common::*;
use crate::prng::Prng;
use crate::sets::{self, DynPk, DynSet, Mode, SetInfo, MODES};
use crate::simrng::SimRng;
use serde_json::{json, Value};
use std::collections::{BTreeMap, BTreeSet};

#[derive(Clone, Copy, Debug, PartialEq, Eq)]
pub enum PkProv {
    Generated,
    RoundTripped,
    Derived,
}

impl PkProv {
    fn name(&self) -> &'static str {
        match self {
            PkProv::Generated => "generated",
            PkProv::RoundTripped => "round_tripped",
            PkProv::Derived => "derived",
        }
    }
    fn from_name(s: &str) -> Option<Self> {
        [PkProv::Generated, PkProv::RoundTripped, PkProv::Derived].into_iter().find(|p| p.name() == s)
    }
}

#[derive(Clone, Copy, Debug, PartialEq, Eq, PartialOrd, Ord)]
pub enum Artefact {
    Sig,
    Pk,
    Msg,
    Ctx,
}

impl Artefact {
    fn name(&self) -> &'static str {
        match self {
            Artefact::Sig => "sig",
            Artefact::Pk => "pk",
            Artefact::Msg => "msg",
            Artefact::Ctx => "ctx",
        }
    }
    fn from_name(s: &str) -> Option<Self> {
        [Artefact::Sig, Artefact::Pk, Artefact::Msg, Artefact::Ctx].into_iter().find(|p| p.name() == s)
    }
}

#[derive(Clone, Debug)]
pub struct Tuple {
    pub mode: Mode,
    pub xi: [u8; 32],
    pub rnd: [u8; 32],
    pub msg: Vec<u8>,
    pub ctx: Vec<u8>,
    pub prov: PkProv,
}

impl Tuple {
    fn to_json(&self, set: &str) -> Value {
        json!({"set": set, "mode": self.mode.name(), "xi": hx(&self.xi), "rnd": hx(&self.rnd), "msg": hx(&self.msg), "ctx": hx(&self.ctx), "pk_provenance": self.prov.name()})
    }
}

pub struct Built {
    pub pk: Box<dyn DynPk>,
    pub pk_bytes: Vec<u8>,
    pub sig: Vec<u8>,
}

/// Originator side: generate, sign, serialise. Err = precondition cannot be established.
pub fn build(set: &dyn DynSet, t: &Tuple) -> Result<Built, String> {
    let (pk, sk) = set.keygen_seed(&t.xi);
    let mut rng = SimRng::healthy(t.rnd.to_vec());
    let sig = sk.sign_rng(&mut rng, &t.msg, &t.ctx, t.mode).map_err(|e| format!("honest signing failed: {e}"))?;
    let pk_bytes = pk.to_bytes();
    let vpk: Box<dyn DynPk> = match t.prov {
        PkProv::Generated => pk,
        PkProv::RoundTripped => set.pk_from_bytes(&pk_bytes).map_err(|e| format!("honest public key rejected: {e}"))?,
        PkProv::Derived => sk.public(),
    };
    Ok(Built { pk: vpk, pk_bytes, sig })
}

/// Remote side under one single-bit fault. Ok(true) = the faulted tuple was ACCEPTED.
pub fn accepted_under_flip(set: &dyn DynSet, t: &Tuple, b: &Built, art: Artefact, bit: usize) -> Result<bool, String> {
    let flip = |v: &[u8]| -> Vec<u8> {
        let mut x = v.to_vec();
        x[bit / 8] ^= 1 << (bit % 8);
        x
    };
    catch(|| match art {
        Artefact::Sig => b.pk.verify(&t.msg, &flip(&b.sig), &t.ctx, t.mode),
        Artefact::Msg => b.pk.verify(&flip(&t.msg), &b.sig, &t.ctx, t.mode),
        Artefact::Ctx => b.pk.verify(&t.msg, &b.sig, &flip(&t.ctx), t.mode),
        Artefact::Pk => match set.pk_from_bytes(&flip(&b.pk_bytes)) {
            Err(_) => false, // a key that no longer deserialises is a rejection
            Ok(pk2) => pk2.verify(&t.msg, &b.sig, &t.ctx, t.mode),
        },
    })
}

// ---- reach statistics only (never the oracle): a restatement of Algorithm 21's acceptance rules
pub fn hint_section_decodes(info: &SetInfo, sig: &[u8]) -> bool {
    let y = &sig[info.hint_start()..];
    let (omega, k) = (info.omega, info.k);
    let mut index = 0usize;
    for i in 0..k {
        let lim = y[omega + i] as usize;
        if lim < index || lim > omega {
            return false;
        }
        let first = index;
        while index < lim {
            if index > first && y[index - 1] >= y[index] {
                return false;
            }
            index += 1;
        }
    }
    y[index..omega].iter().all(|&b| b == 0)
}

fn sig_region(info: &SetInfo, sig: &[u8], bit: usize) -> &'static str {
    let byte = bit / 8;
    let hs = info.hint_start();
    if byte < info.ctilde_len {
        "c_tilde"
    } else if byte < hs {
        "z"
    } else if byte >= hs + info.omega {
        "hint_count"
    } else {
        let used = sig[hs + info.omega + info.k - 1] as usize;
        if byte - hs < used {
            "hint_index"
        } else {
            "hint_padding"
        }
    }
}

fn hint_weight(info: &SetInfo, sig: &[u8]) -> usize { sig[info.hint_start() + info.omega + info.k - 1] as usize }

#[derive(Default)]
struct UnitOut {
    evals: u64,
    sigs: BTreeSet<String>,
    viols: Vec<Violation>,
    reject_by: BTreeMap<String, u64>,
    probes: BTreeMap<String, u64>,
    unverifiable: u64,
    tuples: u64,
    sample: Option<Value>,
    harness: Option<String>,
    digest: u64,
}

fn bump(m: &mut BTreeMap<String, u64>, k: &str, n: u64) { *m.entry(k.to_string()).or_insert(0) += n; }

fn len_class(n: usize) -> &'static str {
    match n {
        0 => "0",
        1 => "1",
        2..=135 => "<rate",
        136 => "=rate",
        137..=254 => ">rate",
        255 => "255",
        _ => "multi",
    }
}

#[derive(Clone)]
struct Unit {
    set_idx: usize,
    tuple: Tuple,
    art: Artefact,
    lo: usize,
    hi: usize,
    /// visit every `step`-th bit of the range (1 = every bit)
    step: usize,
    stratum: &'static str,
    first_of_tuple: bool,
}

fn art_bits(info: &SetInfo, t: &Tuple, art: Artefact) -> usize {
    8 * match art {
        Artefact::Sig => info.sig_len,
        Artefact::Pk => info.pk_len,
        Artefact::Msg => t.msg.len(),
        Artefact::Ctx => t.ctx.len(),
    }
}

fn run_unit(set: &dyn DynSet, u: &Unit, run: u64) -> UnitOut {
    let mut out = UnitOut::default();
    let info = set.info();
    let t = &u.tuple;
    let b = match catch(|| build(set, t)) {
        Ok(Ok(b)) => b,
        Ok(Err(e)) => {
            out.harness = Some(format!("C05 precondition: {e} ({})", info.name));
            return out;
        }
        Err(p) => {
            out.harness = Some(format!("C05 precondition: panic while building an honest tuple: {p}"));
            return out;
        }
    };
    // precondition: the un-faulted tuple verifies (C01's business if not)
    let ok = catch(|| b.pk.verify(&t.msg, &b.sig, &t.ctx, t.mode)).unwrap_or(false);
    if u.first_of_tuple {
        out.tuples += 1;
    }
    if !ok {
        if u.first_of_tuple {
            out.unverifiable += 1;
        }
        return out;
    }
    if u.first_of_tuple {
        let w = hint_weight(info, &b.sig);
        if w == info.omega {
            bump(&mut out.probes, "hint_weight_equals_omega", 1);
        }
        if w == 0 {
            bump(&mut out.probes, "hint_weight_zero", 1);
        }
        let counts = &b.sig[info.hint_start() + info.omega..];
        if counts.windows(2).any(|c| c[0] == c[1]) || counts[0] == 0 {
            bump(&mut out.probes, "polynomial_without_hints", 1);
        }
        if counts[info.k - 1] == counts[info.k.saturating_sub(2)] {
            bump(&mut out.probes, "last_polynomial_without_hints", 1);
        }
        out.sample = Some(json!({"tuple": t.to_json(info.name), "hint_weight": w, "stratum": u.stratum}));
    }
    let mut dg = Digest::new();
    for bit in (u.lo..u.hi).step_by(u.step.max(1)) {
        out.evals += 1;
        let region = match u.art {
            Artefact::Sig => sig_region(info, &b.sig, bit),
            Artefact::Pk => {
                if bit / 8 < 32 {
                    "rho"
                } else {
                    "t1"
                }
            }
            Artefact::Msg => "message",
            Artefact::Ctx => "context",
        };
        match accepted_under_flip(set, t, &b, u.art, bit) {
            Ok(false) => {
                let by = if u.art == Artefact::Sig && region.starts_with("hint") {
                    let mut s2 = b.sig.clone();
                    s2[bit / 8] ^= 1 << (bit % 8);
                    if hint_section_decodes(info, &s2) {
                        "commitment_hash"
                    } else {
                        "decoding"
                    }
                } else {
                    "commitment_hash"
                };
                bump(&mut out.reject_by, &format!("{region}:{by}"), 1);
                out.sigs.insert(format!(
                    "{}|{}|{}|{}|{}|{}|m{}|c{}",
                    info.name, t.mode.name(), t.prov.name(), u.art.name(), region, by,
                    len_class(t.msg.len()), len_class(t.ctx.len())
                ));
                dg.u64(bit as u64);
            }
            Ok(true) | Err(_) => {
                let panicked = matches!(accepted_under_flip(set, t, &b, u.art, bit), Err(_));
                let mut body = t.to_json(info.name);
                body["artefact"] = json!(u.art.name());
                body["bit"] = json!(bit);
                body["region"] = json!(region);
                body["observed"] = json!(if panicked { "verification panicked" } else { "verification returned true" });
                body["expected"] = json!("verification returns false");
                out.viols.push(Violation {
                    run,
                    invariant: if panicked { "flip-panics".into() } else { "flip-accepted".into() },
                    finding_key: format!("{}:{}:{}", if panicked { "flip-panics" } else { "flip-accepted" }, u.art.name(), region),
                    body,
                });
                if out.viols.len() >= 2 {
                    break;
                }
            }
        }
    }
    out.digest = dg.0;
    out
}

const CHUNK: usize = 1024;

fn push_units(units: &mut Vec<Unit>, set_idx: usize, info: &SetInfo, t: &Tuple, stratum: &'static str) {
    let mut first = true;
    let mb = art_bits(info, t, Artefact::Msg);
    let ranges: Vec<(Artefact, usize, usize, usize)> = if stratum == "full" {
        [Artefact::Sig, Artefact::Pk, Artefact::Msg, Artefact::Ctx].iter().map(|a| (*a, 0, art_bits(info, t, *a), 1)).collect()
    } else if stratum == "longmsg" {
        vec![(Artefact::Msg, 0, mb, 1), (Artefact::Ctx, 0, art_bits(info, t, Artefact::Ctx), 1)]
    } else if stratum == "aligned" {
        // lengths chosen so that a slice boundary of the absorbed stream falls on a SHAKE256 block
        // boundary: every message and context bit, rho, and every third t1 bit (all ten bit
        // positions of the 10-bit fields are visited)
        vec![(Artefact::Msg, 0, mb, 1), (Artefact::Ctx, 0, art_bits(info, t, Artefact::Ctx), 1), (Artefact::Pk, 0, 256, 1), (Artefact::Pk, 256, 8 * info.pk_len, 3)]
    } else if stratum == "counts" {
        // only the k count bytes of the hint section, on many signatures: a defect that shows only on a
        // signature using exactly omega hints (a fraction of a percent of signatures) needs the volume
        vec![(Artefact::Sig, 8 * (info.sig_len - info.k), 8 * info.sig_len, 1)]
    } else if stratum == "hugemsg" {
        // a message longer than 64 KiB: head, tail (the trailing partial blocks of every pre-hash) and a thin sample
        vec![(Artefact::Msg, 0, 128, 1), (Artefact::Msg, mb.saturating_sub(2400), mb, 1), (Artefact::Msg, 128, mb.saturating_sub(2400), 4099)]
    } else {
        // hint stratum: commitment hash and the whole hint section of many more signatures
        vec![(Artefact::Sig, 0, 8 * info.ctilde_len, 1), (Artefact::Sig, 8 * info.hint_start(), 8 * info.sig_len, 1)]
    };
    for (a, lo0, hi0, step) in ranges {
        let mut lo = lo0;
        while lo < hi0 {
            let hi = (lo + CHUNK * step).min(hi0);
            units.push(Unit { set_idx, tuple: t.clone(), art: a, lo, hi, step, stratum, first_of_tuple: first });
            first = false;
            lo = hi;
        }
    }
}

pub fn run(ctx: &Ctx) -> i32 {
    let all = sets::sets();
    let (full_per_cell, hint_per_set): (u64, u64) = match ctx.tier {
        Tier::Quick => (1, ctx.scaled(48)),
        Tier::Thorough => (ctx.scaled(8), ctx.scaled(1500)),
    };
    let msg_lens = [1usize, 8, 135, 136, 137, 168, 169, 300];
    // every context-length class (incl. the two longest legal ones) occurs for every set
    let ctx_lens = [255usize, 1, 254, 32];
    let provs = [PkProv::Generated, PkProv::RoundTripped, PkProv::Derived];
    let long_len: usize = match ctx.tier { Tier::Quick => 1100, Tier::Thorough => 5000 };
    let mut units: Vec<Unit> = Vec::new();
    let mut n_full = 0u64;
    let mut n_hint = 0u64;
    let mut n_long = 0u64;
    let mut n_aligned = 0u64;
    let mut n_counts = 0u64;
    let mut n_huge = 0u64;
    for (si, set) in all.iter().enumerate() {
        let info = set.info();
        for (mi, mode) in MODES.iter().enumerate() {
            for v in 0..full_per_cell {
                let mut p = Prng::for_run(ctx.seed, &format!("c05-full-{}-{}", info.name, mode.name()), v);
                let t = Tuple {
                    mode: *mode,
                    xi: p.array32(),
                    rnd: p.array32(),
                    msg: { let n = msg_lens[(si * 3 + mi * 2 + v as usize) % msg_lens.len()]; p.bytes(n) },
                    ctx: { let n = ctx_lens[(si + mi + v as usize) % ctx_lens.len()]; p.bytes(n) },
                    prov: provs[(si + mi + v as usize) % 3],
                };
                push_units(&mut units, si, info, &t, "full");
                n_full += 1;
            }
            // block-aligned lengths: pure absorbs tr(64)|dom|len|ctx|M, hash modes tr(64)|dom|len|ctx|OID(11)|PH(32 or 64)
            let aligned: [(usize, usize); 2] = match mode {
                Mode::Pure => [(70, 5 + si), (5 + mi, 65 - mi)],
                Mode::Sha512 => [(59, 9), (131, 17)],
                _ => [(59, 9), (27, 17)],
            };
            for (j, (cl, ml)) in aligned.iter().enumerate() {
                if ctx.tier == Tier::Quick && (si + mi + j) % 2 == 1 {
                    continue;
                }
                let mut p = Prng::for_run(ctx.seed, &format!("c05-aligned-{}-{}", info.name, mode.name()), j as u64);
                let t = Tuple { mode: *mode, xi: p.array32(), rnd: p.array32(), msg: p.bytes(*ml), ctx: p.bytes(*cl), prov: provs[(mi + j) % 3] };
                push_units(&mut units, si, info, &t, "aligned");
                n_aligned += 1;
            }
            // a message longer than 64 KiB (bulk paths of the pre-hash functions)
            if ctx.tier == Tier::Thorough || mi == (si + 2) % 4 || (mi == (si + 1) % 4 && *mode != Mode::Pure) {
                let mut p = Prng::for_run(ctx.seed, &format!("c05-huge-{}-{}", info.name, mode.name()), 0);
                let hl = 65_536 + 37 + 64 * mi + si;
                let t = Tuple { mode: *mode, xi: p.array32(), rnd: p.array32(), msg: p.bytes(hl), ctx: p.bytes(2), prov: provs[(si + mi) % 3] };
                push_units(&mut units, si, info, &t, "hugemsg");
                n_huge += 1;
            }
            // long multi-block message: every message bit (pre-hash and SHAKE256 absorb paths)
            if ctx.tier == Tier::Thorough || mi == (si + 1) % 4 || mi == (si + 3) % 4 {
                let mut p = Prng::for_run(ctx.seed, &format!("c05-long-{}-{}", info.name, mode.name()), 0);
                let t = Tuple { mode: *mode, xi: p.array32(), rnd: p.array32(), msg: p.bytes(long_len), ctx: p.bytes(3), prov: provs[mi % 3] };
                push_units(&mut units, si, info, &t, "longmsg");
                n_long += 1;
            }
        }
        for v in 0..hint_per_set * 12 {
            let mut p = Prng::for_run(ctx.seed, &format!("c05-counts-{}", info.name), v);
            let t = Tuple {
                mode: *p.pick(&MODES),
                xi: p.array32(),
                rnd: p.array32(),
                msg: { let n = 1 + p.usize_below(16); p.bytes(n) },
                ctx: vec![],
                prov: *p.pick(&provs),
            };
            push_units(&mut units, si, info, &t, "counts");
            n_counts += 1;
        }
        for v in 0..hint_per_set {
            let mut p = Prng::for_run(ctx.seed, &format!("c05-hint-{}", info.name), v);
            let t = Tuple {
                mode: *p.pick(&MODES),
                xi: p.array32(),
                rnd: p.array32(),
                msg: { let n = 1 + p.usize_below(64); p.bytes(n) },
                ctx: { let n = p.usize_below(4); p.bytes(n) },
                prov: *p.pick(&provs),
            };
            push_units(&mut units, si, info, &t, "hint");
            n_hint += 1;
        }
    }
    // testing aid (determinism self-test): below nominal scale only a fixed subsample of the units runs
    let subsampled = ctx.scale < 100;
    if subsampled {
        let mut i = 0u64;
        units.retain(|u| { i += 1; u.first_of_tuple || (i * 7919) % 100 < ctx.scale });
    }
    let outs = run_indexed(units.len(), ctx.workers, |i| run_unit(all[units[i].set_idx], &units[i], i as u64));

    let mut evals = 0u64;
    let mut sigs = BTreeSet::new();
    let mut viols = Vec::new();
    let mut reject_by = BTreeMap::new();
    let mut probes = BTreeMap::new();
    let (mut unverifiable, mut tuples) = (0u64, 0u64);
    let mut samples = Vec::new();
    let mut dg = Digest::new();
    for o in outs {
        if let Some(h) = o.harness {
            harness_error(&h);
        }
        evals += o.evals;
        sigs.extend(o.sigs);
        viols.extend(o.viols);
        for (k, v) in o.reject_by {
            bump(&mut reject_by, &k, v);
        }
        for (k, v) in o.probes {
            bump(&mut probes, &k, v);
        }
        unverifiable += o.unverifiable;
        tuples += o.tuples;
        dg.u64(o.digest);
        if let Some(s) = o.sample {
            if samples.len() < 5 {
                samples.push(s);
            }
        }
    }
    if tuples > 0 && unverifiable == tuples {
        harness_error("C05 precondition: no honest tuple verifies (a C01 matter, not C05)");
    }
    let viols: Vec<Violation> = viols.into_iter().take(8).map(minimise).collect();
    let (code, new, kn) = report_violations(ctx, &viols);
    let wall = ctx.wall();
    write_evidence(ctx, Evidence {
        level: "fault_enumeration",
        evaluations: evals,
        signatures: sigs.into_iter().collect(),
        rule: "For each seeded honest tuple (set, mode, xi, rnd, message, context, verifier-key provenance) that verifies: stratum `full` flips EVERY bit of the signature, of the serialised public key, of the message and of the context, one at a time; stratum `aligned` uses context/message lengths at which a slice boundary of the absorbed stream falls on a SHAKE256 block boundary (every message and context bit, rho, every third t1 bit); stratum `hugemsg` flips head, tail and a thin sample of a message longer than 64 KiB; stratum `longmsg` flips every bit of a multi-block message (1100 bytes quick, 5000 thorough); stratum `counts` flips every bit of the k count bytes on twelve times as many signatures again (a defect confined to signatures with exactly omega hints needs the volume); stratum `hint` flips every bit of the commitment hash and of the whole hint section (index bytes, zero padding, count bytes) on many more signatures. Oracle: verification returns false (a public key that no longer deserialises counts as rejected; a panic counts as not returning false). A case is distinct by (set, mode, provenance, artefact, region of the flipped bit, whether a restated Algorithm 21 says the flip is rejected by decoding or only by the commitment hash, message/context length class).".into(),
        samples,
        exhaustive: false,
        extra: json!({
            "per_tuple_fault_space_enumerated_completely": !subsampled,
            "tuples_full": n_full,
            "tuples_hint_stratum": n_hint,
            "tuples_long_message_stratum": n_long,
            "tuples_block_aligned_stratum": n_aligned,
            "tuples_count_bytes_stratum": n_counts,
            "tuples_huge_message_stratum": n_huge,
            "tuples_unverifiable_skipped": unverifiable,
            "runs": n_full + n_hint + n_long + n_aligned + n_huge + n_counts,
            "runs_per_hour": if wall > 0.0 { ((n_full + n_hint) as f64 / wall * 3600.0) as u64 } else { 0 },
            "faults_fired": {"bitflip": evals},
            "faults_configured": {"bitflip": evals},
            "rejected_by_region_and_stage": reject_by,
            "reach_probes": probes,
            "history_digest": format!("{:016x}", dg.0),
            "real_vs_stub": REAL_STUB,
            "sets": sets::sets().iter().map(|s| s.info().name).collect::<Vec<_>>(),
        }),
        assumptions: vec![
            "an accepted flip would be a SHAKE256 collision or a second hint vector with the same w1 (probability << 2^-100); none is expected".into(),
            "release flavour only: C05 speaks about the shipped decision".into(),
            "the restated Algorithm 21 is used for the reach statistics only, never as the oracle".into(),
        ],
        violations: new,
        known_findings: kn,
    });
    code
}

fn parse_tuple(body: &Value) -> Option<(&'static dyn DynSet, Tuple, Artefact, usize)> {
    let set = sets::set_by_name(body["set"].as_str()?)?;
    let t = Tuple {
        mode: Mode::from_name(body["mode"].as_str()?)?,
        xi: unhx32(&body["xi"]),
        rnd: unhx32(&body["rnd"]),
        msg: unhx(&body["msg"]),
        ctx: unhx(&body["ctx"]),
        prov: PkProv::from_name(body["pk_provenance"].as_str()?)?,
    };
    Some((set, t, Artefact::from_name(body["artefact"].as_str()?)?, body["bit"].as_u64()? as usize))
}

pub fn replay_body(body: &Value) -> Result<Option<(String, String, String)>, String> {
    let (set, t, art, bit) = parse_tuple(body).ok_or("bad C05 replay body")?;
    if bit >= art_bits(set.info(), &t, art) {
        return Err("bit outside artefact".into());
    }
    let b = build(set, &t)?;
    if !catch(|| b.pk.verify(&t.msg, &b.sig, &t.ctx, t.mode)).unwrap_or(false) {
        return Ok(None); // precondition gone: nothing to say
    }
    Ok(match accepted_under_flip(set, &t, &b, art, bit) {
        Ok(false) => None,
        Ok(true) => Some(("flip-accepted".into(), "verification returned true".into(), "verification returns false".into())),
        Err(p) => Some(("flip-panics".into(), format!("verification panicked: {p}"), "verification returns false".into())),
    })
}

fn still(body: &Value, inv: &str) -> bool { matches!(replay_body(body), Ok(Some((i, _, _))) if i == inv) }

fn minimise(v: Violation) -> Violation {
    let inv = v.invariant.clone();
    let mut body = v.body.clone();
    if !still(&body, &inv) {
        return v;
    }
    let art = body["artefact"].as_str().unwrap_or("").to_string();
    let mut tries: Vec<Box<dyn Fn(&mut Value)>> = vec![
        Box::new(|b| b["pk_provenance"] = json!("generated")),
        Box::new(|b| b["mode"] = json!("pure")),
        Box::new(|b| b["rnd"] = json!("00".repeat(32))),
        Box::new(|b| b["xi"] = json!("00".repeat(32))),
    ];
    if art != "msg" {
        tries.push(Box::new(|b| b["msg"] = json!("")));
    } else {
        tries.push(Box::new(|b| {
            let bit = b["bit"].as_u64().unwrap_or(0) as usize;
            let m = unhx(&b["msg"]);
            b["msg"] = json!(hx(&m[..(bit / 8 + 1).min(m.len())]));
        }));
    }
    if art != "ctx" {
        tries.push(Box::new(|b| b["ctx"] = json!("")));
    } else {
        tries.push(Box::new(|b| {
            let bit = b["bit"].as_u64().unwrap_or(0) as usize;
            let m = unhx(&b["ctx"]);
            b["ctx"] = json!(hx(&m[..(bit / 8 + 1).min(m.len())]));
        }));
    }
    for t in &tries {
        let mut b2 = body.clone();
        t(&mut b2);
        if b2 != body && still(&b2, &inv) {
            body = b2;
        }
    }
    body["minimised"] = json!(true);
    Violation { body, ..v }
}
