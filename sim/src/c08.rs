//! C08 — signature encodings are canonical (the slice reachable by channel faults).
//!
//! The channel corrupts honest signatures: bit rot at every position, stuck-at bytes, byte
//! reordering and duplication inside the hint section (the network's reorder/duplicate faults at
//! byte granularity), seeded multi-bit rot. The remote party decodes through the verif-hooks
//! wrappers. Oracle, both directions, against a restated Algorithm 21 as reference model:
//! sigDecode accepts iff the model accepts the hint section; and whenever it accepts,
//! sigEncode(sigDecode(bytes)) == bytes.

use crate::c05::{build, PkProv, Tuple};
use crate::common::*;
use crate::prng::Prng;
use crate::sets::{self, DynSet, SetInfo, MODES};
use serde_json::{json, Value};
use std::collections::{BTreeMap, BTreeSet};

/// Reference model of Algorithm 21's acceptance rules. Ok(()) or the first rule breached.
pub fn hint_model(info: &SetInfo, sig: &[u8]) -> Result<(), &'static str> {
    let y = &sig[info.hint_start()..];
    let (omega, k) = (info.omega, info.k);
    let mut index = 0usize;
    for i in 0..k {
        let lim = y[omega + i] as usize;
        if lim < index {
            return Err("count_decreases");
        }
        if lim > omega {
            return Err("count_exceeds_omega");
        }
        let first = index;
        while index < lim {
            if index > first {
                if y[index - 1] == y[index] {
                    return Err("repeated_index");
                }
                if y[index - 1] > y[index] {
                    return Err("unsorted_index");
                }
            }
            index += 1;
        }
    }
    if y[index..omega].iter().any(|&b| b != 0) {
        return Err("nonzero_unused_byte");
    }
    Ok(())
}

#[derive(Clone, Debug)]
enum SigFault {
    BitFlip(usize),
    Stuck(usize, u8),
    /// swap hint-section bytes a and b (offsets within the hint section)
    Swap(usize, usize),
    /// copy hint-section byte a over byte b
    Dup(usize, usize),
    MultiBit(Vec<usize>),
    /// the hint section (kinds 0..3) or the whole signature (kinds 4..7) reads back as a memory-test
    /// pattern: 0xAA, 0x55, address-in-data (low byte of the absolute offset), ramp from 0
    Pattern(u8),
    /// double fault: the hint section reads back as a memory-test pattern (2 = address-in-data, 3 = ramp)
    /// AND one of its bytes (offset within the hint section) is stuck at a value
    PatternStuck(u8, usize, u8),
}

impl SigFault {
    fn class(&self) -> &'static str {
        match self {
            SigFault::BitFlip(_) => "bitflip",
            SigFault::Stuck(..) => "stuck_byte",
            SigFault::Swap(..) => "byte_reorder",
            SigFault::Dup(..) => "byte_duplicate",
            SigFault::MultiBit(_) => "multi_bit_rot",
            SigFault::Pattern(_) => "test_pattern_fill",
            SigFault::PatternStuck(..) => "pattern_fill_plus_stuck_byte",
        }
    }
    fn to_json(&self) -> Value {
        match self {
            SigFault::BitFlip(b) => json!({"kind":"bitflip","bit":b}),
            SigFault::Stuck(p, v) => json!({"kind":"stuck_byte","byte":p,"value":v}),
            SigFault::Swap(a, b) => json!({"kind":"byte_reorder","hint_offsets":[a, b]}),
            SigFault::Dup(a, b) => json!({"kind":"byte_duplicate","hint_offsets":[a, b]}),
            SigFault::MultiBit(b) => json!({"kind":"multi_bit_rot","bits":b}),
            SigFault::Pattern(k) => json!({"kind":"test_pattern_fill","pattern":k}),
            SigFault::PatternStuck(k, a, v) => json!({"kind":"pattern_fill_plus_stuck_byte","pattern":k,"hint_offset":a,"value":v}),
        }
    }
    fn apply(&self, info: &SetInfo, sig: &mut [u8]) {
        let hs = info.hint_start();
        match self {
            SigFault::BitFlip(b) => sig[b / 8] ^= 1 << (b % 8),
            SigFault::Stuck(p, v) => sig[*p] = *v,
            SigFault::Swap(a, b) => sig.swap(hs + a, hs + b),
            SigFault::Dup(a, b) => sig[hs + b] = sig[hs + a],
            SigFault::MultiBit(bits) => {
                for b in bits {
                    sig[b / 8] ^= 1 << (b % 8);
                }
            }
            SigFault::PatternStuck(k, a, v) => {
                SigFault::Pattern(*k).apply(info, sig);
                sig[hs + a] = *v;
            }
            SigFault::Pattern(k) => {
                let lo = if *k < 4 { hs } else { 0 };
                for i in lo..sig.len() {
                    sig[i] = match k % 4 {
                        0 => 0xAA,
                        1 => 0x55,
                        2 => i as u8,
                        _ => (i - lo) as u8,
                    };
                }
            }
        }
    }
}

/// Judge one delivered signature. None = holds.
fn judge(set: &dyn DynSet, x: &[u8]) -> Result<Option<(String, String, String)>, String> {
    let info = set.info();
    let model = hint_model(info, x);
    let r = catch(|| set.sig_recode(x));
    match r {
        Err(p) => Ok(Some(("decode-panics".into(), format!("sigDecode/sigEncode panicked: {p}"), "Ok or Err".into()))),
        Ok(None) => Err("verif-hooks not compiled into this build".into()),
        Ok(Some(Err(e))) => match model {
            Err(_) => Ok(None),
            Ok(()) => Ok(Some(("decode-rejects-wellformed".into(), format!("sigDecode returned Err({e:?}) for a hint section that satisfies every rule of Algorithm 21"), "Ok".into()))),
        },
        Ok(Some(Ok(re))) => match model {
            Err(rule) => Ok(Some((format!("decode-accepts-malformed:{rule}"), format!("sigDecode accepted a hint section that breaks rule `{rule}`"), "Err".into()))),
            Ok(()) => {
                if re != x {
                    let d = re.iter().zip(x.iter()).position(|(a, b)| a != b).unwrap_or(0);
                    Ok(Some(("reencode-differs".into(), format!("sigEncode(sigDecode(bytes)) differs from bytes at offset {d}"), "identical bytes".into())))
                } else {
                    Ok(None)
                }
            }
        },
    }
}

#[derive(Default)]
struct UnitOut {
    evals: u64,
    sigs: BTreeSet<String>,
    viols: Vec<Violation>,
    fired: BTreeMap<String, u64>,
    rules: BTreeMap<String, u64>,
    accepted: u64,
    harness: Option<String>,
    sample: Option<Value>,
}

struct Unit {
    set_idx: usize,
    tuple: Tuple,
    /// 0 = signature faults; 1 = private-key store faults; 2 = public-key store faults (bijection clause)
    keycodec: u8,
    whole: bool,
    lo: usize,
    hi: usize,
    idx: u64,
}

fn faults_for(info: &SetInfo, seed: u64, u: &Unit) -> Vec<SigFault> {
    let hs = info.hint_start();
    let hl = info.omega + info.k;
    let mut v = Vec::new();
    if u.whole {
        for b in u.lo..u.hi {
            v.push(SigFault::BitFlip(b));
        }
        return v;
    }
    for b in 8 * hs..8 * info.sig_len {
        v.push(SigFault::BitFlip(b));
    }
    for p in hs..info.sig_len {
        for val in [0x00u8, 0xFF, 0x7F, 0x80, 0x01] {
            v.push(SigFault::Stuck(p, val));
        }
    }
    for k in 0..8u8 {
        v.push(SigFault::Pattern(k));
    }
    // two independent faults: a pattern-filled hint section in which one count byte is stuck
    for k in [2u8, 3] {
        for a in info.omega..hl {
            for val in [0x00u8, 0x01, 0x02, 0x10, info.omega as u8, 0x7F, 0xFF] {
                v.push(SigFault::PatternStuck(k, a, val));
            }
        }
    }
    for a in 0..hl - 1 {
        v.push(SigFault::Swap(a, a + 1));
        v.push(SigFault::Dup(a, a + 1));
        v.push(SigFault::Dup(a + 1, a));
    }
    let mut p = Prng::for_run(seed, &format!("c08-multi-{}", info.name), u.idx);
    for _ in 0..150 {
        let n = 2 + p.usize_below(3);
        v.push(SigFault::MultiBit((0..n).map(|_| 8 * hs + p.usize_below(8 * hl)).collect()));
        v.push(SigFault::Swap(p.usize_below(hl), p.usize_below(hl)));
    }
    v
}

/// Bijection clause at key level: a stored key with one flipped bit that still loads must serialise
/// back to exactly the corrupted bytes (two different byte strings are never read as the same key).
fn run_key_unit(set: &dyn DynSet, u: &Unit, run: u64) -> UnitOut {
    let mut out = UnitOut::default();
    let info = set.info();
    let (pk, sk) = set.keygen_seed(&u.tuple.xi);
    let honest = if u.keycodec == 1 { sk.to_bytes() } else { pk.to_bytes() };
    let what = if u.keycodec == 1 { "private" } else { "public" };
    for bit in u.lo..u.hi.min(honest.len() * 8) {
        let mut x = honest.clone();
        x[bit / 8] ^= 1 << (bit % 8);
        out.evals += 1;
        *out.fired.entry(format!("store_bitflip_{what}_key")).or_insert(0) += 1;
        let re: Result<Option<Vec<u8>>, String> = catch(|| {
            if u.keycodec == 1 {
                set.sk_from_bytes(&x).ok().map(|k| k.to_bytes())
            } else {
                set.pk_from_bytes(&x).ok().map(|k| k.to_bytes())
            }
        });
        let verdict = match &re {
            Ok(None) => "rejected",
            Ok(Some(b)) if *b == x => "roundtrip",
            Ok(Some(_)) => "differs",
            Err(_) => "panic",
        };
        out.sigs.insert(format!("{}|{what}_key_bitflip|{}", info.name, verdict));
        if verdict == "differs" || verdict == "panic" {
            let inv = format!("key-reencode-{verdict}:{what}");
            out.viols.push(Violation {
                run,
                invariant: inv.clone(),
                finding_key: inv,
                body: json!({"set": info.name, "xi": hx(&u.tuple.xi), "key": what, "bit": bit,
                    "observed": format!("a stored {what} key with bit {bit} flipped is accepted but serialises back to different bytes (or panics): two byte strings read as the same key"),
                    "expected": "rejected, or identical bytes"}),
            });
            if out.viols.len() >= 2 {
                break;
            }
        }
    }
    out
}

fn run_unit(ctx: &Ctx, set: &dyn DynSet, u: &Unit, run: u64) -> UnitOut {
    if u.keycodec != 0 {
        return run_key_unit(set, u, run);
    }
    let mut out = UnitOut::default();
    let info = set.info();
    let b = match catch(|| build(set, &u.tuple)) {
        Ok(Ok(b)) => b,
        Ok(Err(e)) => {
            out.harness = Some(format!("C08 precondition: {e}"));
            return out;
        }
        Err(p) => {
            out.harness = Some(format!("C08 precondition: panic while building an honest signature: {p}"));
            return out;
        }
    };
    // the honest signature itself must decode and be canonical
    match judge(set, &b.sig) {
        Err(e) => {
            out.harness = Some(format!("C08: {e}"));
            return out;
        }
        Ok(Some((inv, obs, exp))) => {
            let mut body = u.tuple_json(info.name);
            body["fault"] = json!({"kind":"none"});
            body["observed"] = json!(obs);
            body["expected"] = json!(exp);
            out.viols.push(Violation { run, invariant: inv.clone(), finding_key: inv, body });
            return out;
        }
        Ok(None) => {}
    }
    for f in faults_for(info, ctx.seed, u) {
        let mut x = b.sig.clone();
        f.apply(info, &mut x);
        if x == b.sig {
            continue;
        }
        out.evals += 1;
        *out.fired.entry(f.class().to_string()).or_insert(0) += 1;
        let model = hint_model(info, &x);
        match &model {
            Ok(()) => out.accepted += 1,
            Err(rule) => *out.rules.entry(rule.to_string()).or_insert(0) += 1,
        }
        out.sigs.insert(format!("{}|{}|{}", info.name, f.class(), model.err().unwrap_or("wellformed")));
        match judge(set, &x) {
            Err(e) => {
                out.harness = Some(format!("C08: {e}"));
                return out;
            }
            Ok(None) => {}
            Ok(Some((inv, obs, exp))) => {
                let mut body = u.tuple_json(info.name);
                body["fault"] = f.to_json();
                body["faulted_signature"] = json!(hx(&x));
                body["observed"] = json!(obs);
                body["expected"] = json!(exp);
                out.viols.push(Violation { run, invariant: inv.clone(), finding_key: inv, body });
                if out.viols.len() >= 3 {
                    return out;
                }
            }
        }
    }
    if u.idx == 0 {
        out.sample = Some(json!({"tuple": u.tuple_json(info.name), "whole_signature_sweep": u.whole}));
    }
    out
}

impl Unit {
    fn tuple_json(&self, set: &str) -> Value {
        json!({"set": set, "mode": self.tuple.mode.name(), "xi": hx(&self.tuple.xi), "rnd": hx(&self.tuple.rnd), "msg": hx(&self.tuple.msg), "ctx": hx(&self.tuple.ctx)})
    }
}

pub fn run(ctx: &Ctx) -> i32 {
    let all = sets::sets();
    let (whole_per_set, hint_per_set): (u64, u64) = match ctx.tier {
        Tier::Quick => (ctx.scaled(4), ctx.scaled(600)),
        Tier::Thorough => (ctx.scaled(12), ctx.scaled(3000)),
    };
    let mut units = Vec::new();
    for (si, set) in all.iter().enumerate() {
        let info = set.info();
        let mk = |label: &str, v: u64| -> Tuple {
            let mut p = Prng::for_run(ctx.seed, &format!("c08-{label}-{}", info.name), v);
            let (ml, cl) = (1 + p.usize_below(40), p.usize_below(4));
            Tuple { mode: *p.pick(&MODES), xi: p.array32(), rnd: p.array32(), msg: p.bytes(ml), ctx: p.bytes(cl), prov: PkProv::Generated }
        };
        for v in 0..whole_per_set {
            let t = mk("whole", v);
            let total = 8 * info.hint_start();
            let mut lo = 0;
            while lo < total {
                let hi = (lo + 8192).min(total);
                units.push(Unit { set_idx: si, tuple: t.clone(), keycodec: 0, whole: true, lo, hi, idx: 1 + v });
                lo = hi;
            }
        }
        for v in 0..hint_per_set {
            units.push(Unit { set_idx: si, tuple: mk("hint", v), keycodec: 0, whole: false, lo: 0, hi: 0, idx: v });
        }
        for v in 0..whole_per_set.div_ceil(2) {
            let t = mk("key", v);
            for (kc, len) in [(1u8, info.sk_len), (2u8, info.pk_len)] {
                let mut lo = 0;
                while lo < 8 * len {
                    let hi = (lo + 4096).min(8 * len);
                    units.push(Unit { set_idx: si, tuple: t.clone(), keycodec: kc, whole: true, lo, hi, idx: 1 + v });
                    lo = hi;
                }
            }
        }
    }
    let outs = run_indexed(units.len(), ctx.workers, |i| run_unit(ctx, all[units[i].set_idx], &units[i], i as u64));
    let mut evals = 0u64;
    let mut sigs = BTreeSet::new();
    let mut viols = Vec::new();
    let mut fired = BTreeMap::new();
    let mut rules = BTreeMap::new();
    let mut accepted = 0u64;
    let mut samples = Vec::new();
    for o in outs {
        if let Some(h) = o.harness {
            harness_error(&h);
        }
        evals += o.evals;
        sigs.extend(o.sigs);
        viols.extend(o.viols);
        for (k, v) in o.fired {
            *fired.entry(k).or_insert(0u64) += v;
        }
        for (k, v) in o.rules {
            *rules.entry(k).or_insert(0u64) += v;
        }
        accepted += o.accepted;
        if let Some(s) = o.sample {
            if samples.len() < 4 {
                samples.push(s);
            }
        }
    }
    let total_viol = viols.len();
    let mut by_key: BTreeMap<String, Violation> = BTreeMap::new();
    for v in viols {
        by_key.entry(format!("{}|{}", v.finding_key, v.body["set"])).or_insert(v);
    }
    let viols: Vec<Violation> = by_key.into_values().take(8).collect();
    let (code, new, kn) = report_violations(ctx, &viols);
    write_evidence(ctx, Evidence {
        level: "fault_enumeration",
        evaluations: evals,
        signatures: sigs.into_iter().collect(),
        rule: "Per seeded honest signature: every single-bit flip of c-tilde and z (whole-signature sweep on a few signatures per set); on many more signatures every single-bit flip of the hint section, stuck-at {00, FF, 7F, 80, 01} at every hint byte, memory-test pattern fills of the hint section and of the whole signature (0xAA, 0x55, address-in-data, ramp), reorder (swap) and duplication of adjacent hint bytes - the channel's reorder/duplicate faults at byte granularity - and seeded 2..4-bit rot and random swaps inside the hint section. Oracle, both directions, against a restated Algorithm 21 as reference model: sigDecode (through the verif-hooks wrapper) accepts iff the model accepts, and every accepted byte string re-encodes to itself. Key-level stratum for the bijection clause: every single-bit flip of a stored private and public key; whatever still loads must serialise back to exactly the corrupted bytes. A case is distinct by (set, fault kind, rule of Algorithm 21 the corrupted hint section breaks or `wellformed`).".into(),
        samples,
        exhaustive: false,
        extra: json!({
            "per_signature_fault_space_enumerated_completely": ctx.scale >= 100,
            "faults_fired": fired,
            "malformation_classes_reached": rules,
            "corrupted_signatures_still_wellformed": accepted,
            "violating_evaluations": total_viol,
            "runs": units.len(),
            "real_vs_stub": REAL_STUB,
            "sets": all.iter().map(|s| s.info().name).collect::<Vec<_>>(),
        }),
        assumptions: vec![
            "decides the decoding and re-encoding clauses on signatures reachable by canonical channel faults from honest ones; the bijection clause for key encodings is exercised at API level by C09 (store faults)".into(),
            "the restated Algorithm 21 is the reference model; it was validated against the library on every honest signature of the run (all accepted, all canonical)".into(),
        ],
        violations: new,
        known_findings: kn,
    });
    code
}

pub fn replay_body(body: &Value) -> Result<Option<(String, String, String)>, String> {
    let set = sets::set_by_name(body["set"].as_str().ok_or("no set")?).ok_or("set not compiled in")?;
    if let Some(what) = body["key"].as_str() {
        let kc = if what == "private" { 1 } else { 2 };
        let bit = body["bit"].as_u64().ok_or("no bit")? as usize;
        let t = Tuple { mode: crate::sets::Mode::Pure, xi: unhx32(&body["xi"]), rnd: [0; 32], msg: vec![], ctx: vec![], prov: PkProv::Generated };
        let u = Unit { set_idx: 0, tuple: t, keycodec: kc, whole: true, lo: bit, hi: bit + 1, idx: 0 };
        let o = run_key_unit(set, &u, 0);
        return Ok(o.viols.first().map(|v| (v.invariant.clone(), v.body["observed"].as_str().unwrap_or("").to_string(), "rejected, or identical bytes".to_string())));
    }
    let x = if body["faulted_signature"].is_string() {
        unhx(&body["faulted_signature"])
    } else {
        let t = Tuple {
            mode: crate::sets::Mode::from_name(body["mode"].as_str().unwrap_or("pure")).ok_or("mode")?,
            xi: unhx32(&body["xi"]), rnd: unhx32(&body["rnd"]), msg: unhx(&body["msg"]), ctx: unhx(&body["ctx"]), prov: PkProv::Generated,
        };
        build(set, &t)?.sig
    };
    if x.len() != set.info().sig_len {
        return Err("signature length".into());
    }
    judge(set, &x)
}
