//! C10 — malformed private keys are rejected at deserialisation.
//!
//! Storage fault model on the serialised private key: single-bit rot at every position, stuck-at
//! bytes at every position, lost writes, torn writes against another honest key at every byte
//! boundary, and seeded multi-bit rot. Oracle: a reference model of the on-disk layout.

use crate::common::*;
use crate::prng::Prng;
use crate::sets::{self, DynSet, SetInfo};
use serde_json::{json, Value};
use std::collections::{BTreeMap, BTreeSet};

/// Reference model (the whole of it): the (l+k)*256 fields of eta_bits bits start at byte 128,
/// little-endian bit order; a field is in range iff its value is <= 2*eta.
pub fn model_first_out_of_range(info: &SetInfo, x: &[u8]) -> Option<(usize, u32)> {
    let bits = info.eta_bits();
    let n = (info.k + info.l) * 256;
    for f in 0..n {
        let v = field(x, bits, f);
        if v > 2 * info.eta {
            return Some((f, v));
        }
    }
    None
}

fn field(x: &[u8], bits: usize, f: usize) -> u32 {
    let mut v = 0u32;
    for b in 0..bits {
        let pos = 128 * 8 + f * bits + b;
        v |= u32::from((x[pos / 8] >> (pos % 8)) & 1) << b;
    }
    v
}

fn all_out_of_range(info: &SetInfo, x: &[u8], limit: usize) -> Vec<(usize, u32)> {
    let bits = info.eta_bits();
    let n = (info.k + info.l) * 256;
    let mut v = Vec::new();
    for f in 0..n {
        let val = field(x, bits, f);
        if val > 2 * info.eta {
            v.push((f, val));
            if v.len() >= limit {
                break;
            }
        }
    }
    v
}

fn region_of_byte(info: &SetInfo, byte: usize) -> &'static str {
    let (s0, s1) = info.s_region();
    let s1_end = s0 + info.l * 32 * info.eta_bits();
    if byte < 32 {
        "rho"
    } else if byte < 64 {
        "K"
    } else if byte < 128 {
        "tr"
    } else if byte < s1_end {
        "s1"
    } else if byte < s1 {
        "s2"
    } else {
        "t0"
    }
}

fn vector_of_field(info: &SetInfo, f: usize) -> &'static str { if f < info.l * 256 { "s1" } else { "s2" } }

#[derive(Clone, Copy, Debug, PartialEq, Eq)]
enum Family {
    BitFlip,
    Stuck00,
    StuckFF,
    Lost,
    Torn,
    MultiBit,
    /// whole key or one aligned 64-byte block reads back as a memory-test pattern
    /// (0xAA, 0x55, address-in-data, ramp from 0)
    Pattern,
}

impl Family {
    fn name(&self) -> &'static str {
        match self {
            Family::BitFlip => "bitflip",
            Family::Stuck00 => "stuck_byte_00",
            Family::StuckFF => "stuck_byte_ff",
            Family::Lost => "lost_write",
            Family::Torn => "torn_write",
            Family::MultiBit => "multi_bit_rot",
            Family::Pattern => "test_pattern_fill",
        }
    }
}

#[derive(Clone)]
struct Unit {
    set_idx: usize,
    key_idx: u64,
    fam: Family,
    lo: usize,
    hi: usize,
    first: bool,
}

#[derive(Default)]
struct UnitOut {
    evals: u64,
    sigs: BTreeSet<String>,
    viols: Vec<Violation>,
    cells: Vec<u32>,
    fired: BTreeMap<String, u64>,
    accepted: u64,
    rejected: u64,
    reserialised: u64,
    harness: Option<String>,
    sample: Option<Value>,
    digest: u64,
}

fn honest_sk(ctx_seed: u64, set: &dyn DynSet, key_idx: u64) -> ([u8; 32], Vec<u8>) {
    let mut p = Prng::for_run(ctx_seed, &format!("c10-key-{}", set.info().name), key_idx);
    let xi = p.array32();
    let (_pk, sk) = set.keygen_seed(&xi);
    (xi, sk.to_bytes())
}

/// Judge one stored byte string. Returns (violation?, model verdict, accepted?)
fn judge(set: &dyn DynSet, x: &[u8], checked: bool) -> (Option<(String, String, String, String)>, Option<(usize, u32)>, bool) {
    let info = set.info();
    let bad = model_first_out_of_range(info, x);
    let r = catch(|| set.sk_from_bytes(x));
    match r {
        Err(p) => (
            Some(("deserialise-panics".into(), format!("try_from_bytes panicked: {p}"), "Ok or Err, no panic".into(), "deserialise-panics".into())),
            bad, false,
        ),
        Ok(Err(e)) => match bad {
            Some(_) => (None, bad, false),
            None => (
                Some((
                    "rejected-in-range".into(),
                    format!("try_from_bytes returned Err({e:?}) although every s1/s2 field is in range"),
                    "Ok".into(),
                    "rejected-in-range".into(),
                )),
                bad, false,
            ),
        },
        Ok(Ok(sk)) => match bad {
            Some((f, v)) => (
                Some((
                    "accepted-out-of-range".into(),
                    format!(
                        "try_from_bytes returned Ok although {} field {} (polynomial {}, coefficient {}) encodes {} > {}",
                        vector_of_field(info, f), f, f / 256, f % 256, v, 2 * info.eta
                    ),
                    "Err".into(),
                    format!("accepted-out-of-range:{}", vector_of_field(info, f)),
                )),
                bad, true,
            ),
            None => {
                if checked {
                    // the statement's consequence: re-serialisation cannot fail its self-check
                    if let Err(p) = catch(|| sk.to_bytes()) {
                        return (
                            Some((
                                "reserialise-panics".into(),
                                format!("into_bytes on an accepted key panicked: {p}"),
                                "bytes".into(),
                                "reserialise-panics".into(),
                            )),
                            bad, true,
                        );
                    }
                }
                (None, bad, true)
            }
        },
    }
}

fn apply(fam: Family, idx: usize, honest: &[u8], other: &[u8], seed: u64, set_name: &str, key_idx: u64) -> (Vec<u8>, Value) {
    let mut x = honest.to_vec();
    let desc;
    match fam {
        Family::BitFlip => {
            x[idx / 8] ^= 1 << (idx % 8);
            desc = json!({"kind":"bitflip","bit":idx});
        }
        Family::Stuck00 => {
            x[idx] = 0x00;
            desc = json!({"kind":"stuck_byte","byte":idx,"value":0});
        }
        Family::StuckFF => {
            x[idx] = 0xFF;
            desc = json!({"kind":"stuck_byte","byte":idx,"value":255});
        }
        Family::Lost => {
            let v = if idx == 0 { 0x00 } else { 0xFF };
            x.iter_mut().for_each(|b| *b = v);
            desc = json!({"kind":"lost_write","value":v});
        }
        Family::Torn => {
            x[idx..].copy_from_slice(&other[idx..]);
            desc = json!({"kind":"torn_write","first_n_bytes_of_this_key":idx,"rest_from":"another honest key"});
        }
        Family::Pattern => {
            // idx < 4*(1+blocks64): the four test patterns on the whole key / each 64-byte block;
            // beyond that: every constant byte value on the whole key and on each aligned 32-byte block
            // group the size of one s polynomial (96 bytes for eta=2, 128 for eta=4) inside the s region
            let n64 = 4 * (1 + x.len().div_ceil(64));
            let (kind, lo, hi) = if idx < n64 {
                let (kind, block) = (idx % 4, idx / 4);
                let (lo, hi) = if block == 0 { (0, x.len()) } else { ((block - 1) * 64, (block * 64).min(x.len())) };
                (kind, lo, hi)
            } else {
                let j = idx - n64;
                let (value, block) = (j % 256, j / 256);
                let sinfo = sets::set_by_name(set_name).expect("harness: set").info();
                let plen = 32 * sinfo.eta_bits();
                let (_, s_end) = sinfo.s_region();
                let s1_end = 128 + sinfo.l * plen;
                // blocks: 0 = whole key; 1..=k+l = one secret polynomial each; then whole s1, whole s2, whole s1||s2
                let npoly = (s_end - 128) / plen;
                let (lo, hi) = if block == 0 {
                    (0, x.len())
                } else if block <= npoly {
                    (128 + (block - 1) * plen, 128 + block * plen)
                } else if block == npoly + 1 {
                    (128, s1_end)
                } else if block == npoly + 2 {
                    (s1_end, s_end)
                } else {
                    (128, s_end)
                };
                (4 + value, lo, hi)
            };
            for i in lo..hi {
                x[i] = match kind {
                    0 => 0xAA,
                    1 => 0x55,
                    2 => i as u8,
                    3 => (i - lo) as u8,
                    k => (k - 4) as u8,
                };
            }
            let pname = if kind >= 4 { format!("constant byte {:#04x}", kind - 4) } else { ["0xAA", "0x55", "address-in-data", "ramp"][kind].to_string() };
            let bdesc = if lo == 0 && hi == x.len() { json!("whole key") } else { json!([lo, hi]) };
            desc = json!({"kind":"test_pattern_fill","pattern":pname,"block":bdesc});
        }
        Family::MultiBit => {
            let mut p = Prng::for_run(seed, &format!("c10-multi-{set_name}-{key_idx}"), idx as u64);
            let n = 2 + p.usize_below(7);
            let mut bits = Vec::new();
            for _ in 0..n {
                // bias towards the secret-vector region, where the property lives
                let bit = if p.chance(3, 4) {
                    128 * 8 + p.usize_below((x.len() - 128) * 8)
                } else {
                    p.usize_below(x.len() * 8)
                };
                x[bit / 8] ^= 1 << (bit % 8);
                bits.push(bit);
            }
            desc = json!({"kind":"multi_bit_rot","bits":bits});
        }
    }
    (x, desc)
}

fn run_unit(ctx: &Ctx, set: &dyn DynSet, u: &Unit, run: u64, checked: bool) -> UnitOut {
    let mut out = UnitOut::default();
    let info = set.info();
    let (xi, honest) = honest_sk(ctx.seed, set, u.key_idx);
    let (_xo, other) = honest_sk(ctx.seed, set, u.key_idx + 1_000_003);
    // precondition: the honest key itself is accepted and in range under the model
    if u.first {
        let (v, bad, acc) = judge(set, &honest, checked);
        if bad.is_some() {
            out.harness = Some(format!("C10: layout model calls an honestly generated {} key out of range — model wrong", info.name));
            return out;
        }
        if let Some((inv, obs, exp, key)) = v {
            let _ = acc;
            out.viols.push(Violation {
                run, invariant: inv, finding_key: key,
                body: json!({"set": info.name, "sk": hx(&honest), "honest_seed": hx(&xi), "fault": {"kind":"none"}, "observed": obs, "expected": exp}),
            });
            return out;
        }
        out.sample = Some(json!({"set": info.name, "honest_seed": hx(&xi), "family": u.fam.name(), "range": [u.lo, u.hi]}));
    }
    let mut dg = Digest::new();
    for idx in u.lo..u.hi {
        let (x, desc) = apply(u.fam, idx, &honest, &other, ctx.seed, info.name, u.key_idx);
        if x == honest {
            continue; // the fault changed nothing (stuck-at equal to the stored value)
        }
        out.evals += 1;
        *out.fired.entry(u.fam.name().to_string()).or_insert(0) += 1;
        let (v, bad, acc) = judge(set, &x, checked);
        if acc {
            out.accepted += 1;
            if checked {
                out.reserialised += 1;
            }
        } else {
            out.rejected += 1;
        }
        dg.u64(u64::from(acc));
        let region = match u.fam {
            Family::BitFlip => region_of_byte(info, idx / 8),
            Family::Stuck00 | Family::StuckFF => region_of_byte(info, idx),
            Family::Torn => region_of_byte(info, idx),
            _ => "any",
        };
        out.sigs.insert(format!(
            "{}|{}|{}|{}|{}",
            info.name, u.fam.name(), region,
            match bad { Some((f, v)) => format!("out:{}:{}", vector_of_field(info, f), v), None => "in_range".into() },
            if acc { "accepted" } else { "rejected" }
        ));
        if v.is_none() {
            for (f, val) in all_out_of_range(info, &x, 4) {
                out.cells.push((f as u32) * 16 + val);
            }
        }
        if let Some((inv, obs, exp, key)) = v {
            if out.viols.len() < 2 {
                out.viols.push(Violation {
                    run, invariant: inv, finding_key: key,
                    body: json!({"set": info.name, "sk": hx(&x), "honest_seed": hx(&xi), "fault": desc, "observed": obs, "expected": exp}),
                });
            } else {
                // keep counting but stop collecting
                out.viols.push(Violation { run, invariant: inv, finding_key: key, body: Value::Null });
            }
        }
    }
    out.digest = dg.0;
    out
}

pub fn run(ctx: &Ctx) -> i32 {
    let all = sets::sets();
    let checked = ctx.flavour == "checked";
    let keys: u64 = match (ctx.tier, checked) {
        (Tier::Quick, false) => ctx.scaled(8),
        (Tier::Quick, true) => ctx.scaled(2),
        (Tier::Thorough, false) => ctx.scaled(128),
        (Tier::Thorough, true) => ctx.scaled(16),
    };
    let keys: u64 = ctx.extra.get("keys").and_then(|k| k.parse().ok()).unwrap_or(keys);
    let multi_per_key = 2000usize;
    let mut units = Vec::new();
    const CH: usize = 4096;
    for (si, set) in all.iter().enumerate() {
        let n = set.info().sk_len;
        for k in 0..keys {
            for (fam, total) in [
                (Family::BitFlip, n * 8),
                (Family::Stuck00, n),
                (Family::StuckFF, n),
                (Family::Lost, 2),
                (Family::Torn, n),
                (Family::MultiBit, multi_per_key),
                (Family::Pattern, 4 * (1 + n.div_ceil(64)) + 256 * (4 + (set.info().k + set.info().l))),
            ] {
                let start = if fam == Family::Torn { 1 } else { 0 };
                let mut lo = start;
                while lo < total {
                    let hi = (lo + CH).min(total);
                    units.push(Unit { set_idx: si, key_idx: k, fam, lo, hi, first: lo == start });
                    lo = hi;
                }
            }
        }
    }
    // testing aid (determinism self-test): below nominal scale only a fixed subsample of the units runs
    let subsampled = ctx.scale < 100;
    if subsampled {
        let mut i = 0u64;
        units.retain(|u| { i += 1; u.first || (i * 7919) % 100 < ctx.scale });
    }
    let outs = run_indexed(units.len(), ctx.workers, |i| run_unit(ctx, all[units[i].set_idx], &units[i], i as u64, checked));

    let mut evals = 0u64;
    let mut sigs = BTreeSet::new();
    let mut viols: Vec<Violation> = Vec::new();
    let mut viol_count = 0usize;
    let mut fired: BTreeMap<String, u64> = BTreeMap::new();
    let (mut acc, mut rej, mut reser) = (0u64, 0u64, 0u64);
    let mut samples = Vec::new();
    let mut dg = Digest::new();
    let mut cells: Vec<BTreeSet<u32>> = all.iter().map(|_| BTreeSet::new()).collect();
    for (i, o) in outs.into_iter().enumerate() {
        if let Some(h) = o.harness {
            harness_error(&h);
        }
        evals += o.evals;
        sigs.extend(o.sigs);
        for v in o.viols {
            viol_count += 1;
            if !v.body.is_null() {
                viols.push(v);
            }
        }
        for (k, v) in o.fired {
            *fired.entry(k).or_insert(0) += v;
        }
        acc += o.accepted;
        rej += o.rejected;
        reser += o.reserialised;
        dg.u64(o.digest);
        cells[units[i].set_idx].extend(o.cells);
        if let Some(s) = o.sample {
            if samples.len() < 4 {
                samples.push(s);
            }
        }
    }
    // one representative per finding key, minimised
    let mut by_key: BTreeMap<String, Violation> = BTreeMap::new();
    for v in viols {
        by_key.entry(format!("{}|{}", v.finding_key, v.body["set"])).or_insert(v);
    }
    let viols: Vec<Violation> = by_key.into_values().take(8).map(|v| minimise(ctx, v, checked)).collect();
    let (code, new, kn) = report_violations(ctx, &viols);
    let mut part = serde_json::Map::new();
    let mut all_cells_hit = true;
    for (si, set) in all.iter().enumerate() {
        let info = set.info();
        let vals = (1u32 << info.eta_bits()) - 1 - 2 * info.eta;
        let total = (info.k + info.l) * 256 * vals as usize;
        part.insert(info.name.to_string(), json!({"cells_hit": cells[si].len(), "cells_total": total}));
        if cells[si].len() < total {
            all_cells_hit = false;
        }
    }
    write_evidence(ctx, Evidence {
        level: "fault_enumeration",
        evaluations: evals,
        signatures: sigs.into_iter().collect(),
        rule: "Per seeded honest private key, serialised to the store: every single-bit flip of the SK_LEN bytes; stuck-at 0x00 and 0xFF at every byte; lost write (all 0x00 / all 0xFF); torn write against another honest key at every byte boundary; memory-test pattern fills (0xAA, 0x55, address-in-data, ramp) of the whole key and of every aligned 64-byte block, and every constant byte value on the whole key and on each secret polynomial's block (a stuck data bus); 2000 seeded multi-bit rots (2..8 flips, biased to the secret-vector region). Oracle, both directions: try_from_bytes is Err iff the layout model finds an s1/s2 field > 2*eta; in the checked flavour every accepted key is also re-serialised and must not panic. A case is distinct by (set, fault family, region of the fault, model verdict incl. vector and out-of-range value, outcome). The property's own partition (field index x out-of-range value) is counted separately as partition cells.".into(),
        samples,
        exhaustive: false,
        extra: json!({
            "canonical_fault_space_enumerated_completely_per_key": !subsampled,
            "honest_keys_per_set": keys,
            "runs": keys * all.len() as u64,
            "faults_fired": fired,
            "accepted": acc,
            "rejected": rej,
            "accepted_keys_reserialised_under_self_checks": reser,
            "partition": part,
            "partition_fully_covered": all_cells_hit,
            "violating_evaluations": viol_count,
            "history_digest": format!("{:016x}", dg.0),
            "real_vs_stub": REAL_STUB,
            "sets": all.iter().map(|s| s.info().name).collect::<Vec<_>>(),
        }),
        assumptions: vec![
            "decides C10 on the slice of B^SK_LEN reachable by canonical storage faults from honest keys; byte strings far from any honest key are not visited (irrelevant for a per-field range test, but said)".into(),
            "the layout model knows nothing about rho, K, tr, t0: every value of those is valid".into(),
        ],
        violations: new,
        known_findings: kn,
    });
    code
}

pub fn replay_body(body: &Value) -> Result<Option<(String, String, String)>, String> {
    let set = sets::set_by_name(body["set"].as_str().ok_or("no set")?).ok_or("set not compiled in")?;
    let x = unhx(&body["sk"]);
    if x.len() != set.info().sk_len {
        return Err("sk length".into());
    }
    let checked = cfg!(debug_assertions);
    let (v, _, _) = judge(set, &x, checked);
    Ok(v.map(|(i, o, e, _)| (i, o, e)))
}

fn minimise(_ctx: &Ctx, v: Violation, _checked: bool) -> Violation {
    let inv = v.invariant.clone();
    let mut body = v.body.clone();
    let Some(set) = body["set"].as_str().and_then(sets::set_by_name) else { return v };
    let honest = {
        let xi = unhx32(&body["honest_seed"]);
        set.keygen_seed(&xi).1.to_bytes()
    };
    let mut x = unhx(&body["sk"]);
    if x.len() != honest.len() {
        return v;
    }
    let still = |x: &[u8]| -> bool {
        let mut b = json!({"set": body["set"].clone()});
        b["sk"] = json!(hx(x));
        matches!(replay_body(&b), Ok(Some((i, _, _))) if i == inv)
    };
    if !still(&x) {
        return v;
    }
    // revert corrupted bytes to the honest value while the same violation persists
    let diff: Vec<usize> = (0..x.len()).filter(|&i| x[i] != honest[i]).collect();
    if diff.len() > 1 && diff.len() <= 4096 {
        for i in diff {
            let old = x[i];
            x[i] = honest[i];
            if !still(&x) {
                x[i] = old;
            }
        }
    }
    let remaining: Vec<usize> = (0..x.len()).filter(|&i| x[i] != honest[i]).collect();
    body["sk"] = json!(hx(&x));
    body["corrupted_bytes_after_minimisation"] = json!(remaining);
    body["minimised"] = json!(true);
    Violation { body, ..v }
}
