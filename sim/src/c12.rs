//! C12 — RNG failure is reported, and all drawn randomness is used.
//!
//! Seams owned by the simulator: the caller's RNG device (SimRng) and the kernel entropy syscall
//! (SimKernel). Fault space is enumerated; keys, messages, contexts, stream bytes and operation
//! histories are drawn from the seeded PRNG.

use crate::common::*;
use crate::kernel::{self, KResp, KState};
use crate::prng::Prng;
use crate::sets::{self, DynSet, DynSk, Mode, MODES};
use crate::simrng::{RngFault, SimRng};
use serde_json::{json, Value};
use std::collections::BTreeSet;

#[derive(Clone, Copy, Debug, PartialEq, Eq)]
pub enum Entry {
    KeygenRng,
    SignRng(Mode),
    Dudect,
    KeygenOs,
    SignOs(Mode),
}

impl Entry {
    pub fn name(&self) -> String {
        match self {
            Entry::KeygenRng => "try_keygen_with_rng".into(),
            Entry::SignRng(Mode::Pure) => "try_sign_with_rng".into(),
            Entry::SignRng(m) => format!("try_hash_sign_with_rng/{}", m.name()),
            Entry::Dudect => "dudect_keygen_sign_with_rng".into(),
            Entry::KeygenOs => "try_keygen".into(),
            Entry::SignOs(Mode::Pure) => "try_sign".into(),
            Entry::SignOs(m) => format!("try_hash_sign/{}", m.name()),
        }
    }
    pub fn from_name(s: &str) -> Option<Entry> { all_entries().into_iter().find(|e| e.name() == s) }
    pub fn is_os(&self) -> bool { matches!(self, Entry::KeygenOs | Entry::SignOs(_)) }
    pub fn needs_key(&self) -> bool { matches!(self, Entry::SignRng(_) | Entry::SignOs(_)) }
}

pub fn all_entries() -> Vec<Entry> {
    let mut v = vec![Entry::KeygenRng];
    v.extend(MODES.iter().map(|m| Entry::SignRng(*m)));
    v.push(Entry::Dudect);
    v.push(Entry::KeygenOs);
    v.extend(MODES.iter().map(|m| Entry::SignOs(*m)));
    v
}

#[derive(Clone, Copy, Debug, PartialEq, Eq)]
pub enum KeyProv {
    Generated,
    RoundTripped,
    Cloned,
}

impl KeyProv {
    fn name(&self) -> &'static str {
        match self {
            KeyProv::Generated => "generated",
            KeyProv::RoundTripped => "round_tripped",
            KeyProv::Cloned => "cloned",
        }
    }
    fn from_name(s: &str) -> Option<Self> {
        [KeyProv::Generated, KeyProv::RoundTripped, KeyProv::Cloned].into_iter().find(|k| k.name() == s)
    }
}

#[derive(Clone, Debug)]
pub struct Op {
    pub entry: Entry,
    pub msg: Vec<u8>,
    pub ctx: Vec<u8>,
    pub stream: Vec<u8>,
    pub rng_plan: Vec<(usize, RngFault)>,
    /// errno carried by the device's errors (0 = custom code)
    pub rng_errno: u32,
    pub kplan: Vec<KResp>,
}

impl Op {
    pub fn to_json(&self) -> Value {
        json!({
            "op": self.entry.name(),
            "msg": hx(&self.msg),
            "ctx": hx(&self.ctx),
            "stream": hx(&self.stream),
            "rng_plan": self.rng_plan.iter().map(|(i, f)| { let mut v = f.to_json(); v["req"] = json!(i); v }).collect::<Vec<_>>(),
            "rng_errno": self.rng_errno,
            "kernel_plan": self.kplan.iter().map(|k| k.to_json()).collect::<Vec<_>>(),
        })
    }
    pub fn from_json(v: &Value) -> Option<Op> {
        Some(Op {
            entry: Entry::from_name(v["op"].as_str()?)?,
            msg: unhx(&v["msg"]),
            ctx: unhx(&v["ctx"]),
            stream: unhx(&v["stream"]),
            rng_plan: v["rng_plan"]
                .as_array()?
                .iter()
                .map(|e| Some((e["req"].as_u64()? as usize, RngFault::from_json(e)?)))
                .collect::<Option<Vec<_>>>()?,
            rng_errno: v["rng_errno"].as_u64().unwrap_or(0) as u32,
            kplan: v["kernel_plan"].as_array()?.iter().map(KResp::from_json).collect::<Option<Vec<_>>>()?,
        })
    }
    pub fn faulted(&self) -> bool { !self.rng_plan.is_empty() || self.kplan.iter().any(|k| k.is_failure()) }
}

#[derive(Clone, Debug, PartialEq, Eq)]
pub enum Res {
    Ok(Vec<u8>),
    Err(String),
    Panic(String),
    /// entry point not compiled into this build
    Unavailable,
}

impl Res {
    fn class(&self) -> &'static str {
        match self {
            Res::Ok(_) => "ok",
            Res::Err(_) => "err",
            Res::Panic(_) => "panic",
            Res::Unavailable => "unavailable",
        }
    }
    fn show(&self) -> String {
        match self {
            Res::Ok(b) => format!("Ok({} bytes)", b.len()),
            Res::Err(e) => format!("Err({e:?})"),
            Res::Panic(p) => format!("panic({p:?})"),
            Res::Unavailable => "unavailable".into(),
        }
    }
}

#[derive(Clone, Debug)]
pub struct Outcome {
    pub res: Res,
    /// seam requests observed inside the call
    pub requests: usize,
    pub any_failed: bool,
    pub infallible: Option<&'static str>,
    pub delivered: Vec<u8>,
    pub exhausted: bool,
}

fn pair_bytes(p: sets::KeyPair) -> Vec<u8> {
    let mut v = p.0.to_bytes();
    v.extend(p.1.to_bytes());
    v
}

/// Execute one operation against the real library under the op's seams.
pub fn exec(set: &dyn DynSet, key: Option<&dyn DynSk>, op: &Op) -> Outcome {
    if op.entry.is_os() {
        let mut ks = KState::new(op.stream.clone(), op.kplan.clone());
        let r = catch(|| {
            kernel::with_kernel(&mut ks, || match op.entry {
                Entry::KeygenOs => set.keygen_os().map(|r| r.map(pair_bytes)),
                Entry::SignOs(mode) => key.expect("harness: key").sign_os(&op.msg, &op.ctx, mode),
                _ => unreachable!(),
            })
        });
        let res = match r {
            Ok(None) => Res::Unavailable,
            Ok(Some(Ok(b))) => Res::Ok(b),
            Ok(Some(Err(e))) => Res::Err(e.to_string()),
            Err(p) => Res::Panic(p),
        };
        Outcome {
            res,
            requests: ks.calls(),
            any_failed: ks.any_failed(),
            infallible: None,
            delivered: ks.delivered.clone(),
            exhausted: ks.exhausted,
        }
    } else {
        let mut rng = SimRng::new(op.stream.clone(), op.rng_plan.clone());
        rng.err_code = op.rng_errno;
        let r = catch(|| match op.entry {
            Entry::KeygenRng => Some(set.keygen_rng(&mut rng).map(pair_bytes)),
            Entry::SignRng(mode) => Some(key.expect("harness: key").sign_rng(&mut rng, &op.msg, &op.ctx, mode)),
            Entry::Dudect => set.dudect(&mut rng, &op.msg),
            _ => unreachable!(),
        });
        let res = match r {
            Ok(None) => Res::Unavailable,
            Ok(Some(Ok(b))) => Res::Ok(b),
            Ok(Some(Err(e))) => Res::Err(e.to_string()),
            Err(p) => Res::Panic(p),
        };
        Outcome {
            res,
            requests: rng.requests(),
            any_failed: rng.any_failed(),
            infallible: rng.infallible_used(),
            delivered: rng.delivered.clone(),
            exhausted: rng.exhausted,
        }
    }
}

/// The clauses of C12 that can be judged from one execution. None = holds.
pub fn judge(op: &Op, o: &Outcome) -> Option<(String, String, String)> {
    if let Some(mth) = o.infallible {
        return Some((
            "I1-infallible-interface".into(),
            format!("library called RngCore::{mth}; result {}", o.res.show()),
            "randomness requested only through try_fill_bytes".into(),
        ));
    }
    if let Res::Panic(p) = &o.res {
        return Some(("I3-panic".into(), format!("panic: {p}"), "a value or an error, no panic".into()));
    }
    if o.any_failed {
        if let Res::Ok(_) = &o.res {
            return Some((
                "I2-failure-not-reported".into(),
                o.res.show(),
                "Err, because a randomness request made inside the call failed".into(),
            ));
        }
    }
    if op.entry.is_os() && !o.any_failed && o.res != Res::Unavailable && o.requests == 0 {
        return Some((
            "I5-no-fresh-randomness".into(),
            format!("{} with 0 kernel entropy requests during the call", o.res.show()),
            "at least one OS entropy request inside every call".into(),
        ));
    }
    None
}

fn len_class(n: usize) -> &'static str {
    match n {
        0 => "0",
        1 => "1",
        2..=135 => "<rate",
        136 => "=rate",
        137..=254 => ">rate",
        255 => "255",
        _ => "multi",
    }
}

fn fault_sig(op: &Op) -> String {
    if op.entry.is_os() {
        let fail = op.kplan.iter().find(|k| k.is_failure());
        let pre_short = op.kplan.iter().filter(|k| matches!(k, KResp::Short(_))).count();
        let pre_eintr = op.kplan.iter().filter(|k| matches!(k, KResp::Errno(kernel::EINTR))).count();
        format!(
            "k:{}:short{}:eintr{}",
            fail.map(|f| f.name()).unwrap_or_else(|| "none".into()),
            pre_short.min(3),
            pre_eintr.min(3)
        )
    } else {
        match op.rng_plan.first() {
            None => "r:none".into(),
            Some((i, f)) => format!(
                "r:req{}:{}:e{}:{}",
                i,
                f.class(),
                op.rng_errno,
                match f {
                    RngFault::ErrPartial(n) => match n {
                        1 => "1",
                        2..=15 => "lo",
                        16 => "16",
                        17..=30 => "hi",
                        _ => "31",
                    },
                    _ => "-",
                }
            ),
        }
    }
}

fn signature(set: &str, prov: KeyProv, op: &Op, o: &Outcome) -> String {
    format!(
        "{}|{}|{}|{}|m{}|c{}|{}",
        set,
        op.entry.name(),
        prov.name(),
        fault_sig(op),
        len_class(op.msg.len()),
        len_class(op.ctx.len()),
        o.res.class()
    )
}

const MSG_LENS: [usize; 8] = [0, 1, 8, 135, 136, 137, 1000, 5000];
const CTX_LENS: [usize; 5] = [0, 1, 32, 254, 255];

fn make_key(set: &dyn DynSet, seed: &[u8; 32], prov: KeyProv) -> Box<dyn DynSk> {
    let (_pk, sk) = set.keygen_seed(seed);
    match prov {
        KeyProv::Generated => sk,
        KeyProv::RoundTripped => match set.sk_from_bytes(&sk.to_bytes()) {
            Ok(k) => k,
            Err(e) => harness_error(&format!("C12: honest private key does not round-trip: {e}")),
        },
        KeyProv::Cloned => sk.dup(),
    }
}

fn rng_faults() -> Vec<RngFault> {
    let mut v = vec![RngFault::ErrClean, RngFault::ErrFull];
    v.extend((1..32).map(RngFault::ErrPartial));
    v
}

fn kernel_fault_plans() -> Vec<Vec<KResp>> {
    let fails = [
        KResp::Errno(kernel::EIO),
        KResp::Errno(kernel::EAGAIN),
        KResp::Errno(kernel::EFAULT),
        KResp::Errno(kernel::EINVAL),
        KResp::Errno(kernel::ENOSYS),
        KResp::Errno(kernel::EPERM),
        KResp::RetZero,
        KResp::RetOver,
        KResp::RetNeg,
        KResp::ErrnoZero,
    ];
    let mut plans = Vec::new();
    for pre in [0usize, 1, 7, 16, 31] {
        for burst in 0..4usize {
            for f in fails {
                let mut p = Vec::new();
                if pre > 0 {
                    p.push(KResp::Short(pre));
                }
                for _ in 0..burst {
                    p.push(KResp::Errno(kernel::EINTR));
                }
                p.push(f);
                plans.push(p);
            }
        }
    }
    plans
}

fn kernel_benign_plans() -> Vec<Vec<KResp>> {
    vec![
        vec![],
        vec![KResp::Short(1); 80],
        vec![KResp::Short(5); 20],
        vec![KResp::Short(31), KResp::Short(1)],
        vec![KResp::Errno(kernel::EINTR), KResp::Short(16), KResp::Errno(kernel::EINTR), KResp::Errno(kernel::EINTR)],
        (0..80).map(|i| if i % 2 == 0 { KResp::Errno(kernel::EINTR) } else { KResp::Short(3) }).collect(),
    ]
}

#[derive(Default)]
struct RunOut {
    evals: u64,
    sigs: BTreeSet<String>,
    viols: Vec<Violation>,
    fired: std::collections::BTreeMap<String, u64>,
    configured: std::collections::BTreeMap<String, u64>,
    probes: std::collections::BTreeMap<String, u64>,
    seam_events: u64,
    digest: u64,
    sample: Option<Value>,
    harness: Option<String>,
}

fn bump(m: &mut std::collections::BTreeMap<String, u64>, k: &str, n: u64) { *m.entry(k.to_string()).or_insert(0) += n; }

fn viol(set: &str, seedk: &[u8; 32], prov: KeyProv, ops: &[Op], focus: usize, inv: (String, String, String), bit: Option<usize>, run: u64) -> Violation {
    let op = &ops[focus];
    Violation {
        run,
        invariant: inv.0.clone(),
        finding_key: format!("{}:{}", inv.0, op.entry.name()),
        body: json!({
            "set": set,
            "key": {"from_seed": hx(seedk), "provenance": prov.name()},
            "ops": ops.iter().map(|o| o.to_json()).collect::<Vec<_>>(),
            "focus": focus,
            "bit": bit,
            "observed": inv.1,
            "expected": inv.2,
        }),
    }
}

fn count_fault_events(out: &mut RunOut, op: &Op, o: &Outcome) {
    out.seam_events += o.requests as u64;
    if op.entry.is_os() {
        for (i, k) in op.kplan.iter().enumerate() {
            bump(&mut out.configured, k.class(), 1);
            if i < o.requests {
                bump(&mut out.fired, k.class(), 1);
            }
        }
    } else {
        for (i, f) in &op.rng_plan {
            bump(&mut out.configured, f.class(), 1);
            if *i < o.requests {
                bump(&mut out.fired, f.class(), 1);
            }
        }
    }
}

/// One unit of the enumeration part: (set, entry, variant index).
fn enum_unit(ctx: &Ctx, set: &dyn DynSet, entry: Entry, variant: u64, run: u64) -> RunOut {
    let mut out = RunOut::default();
    let info = set.info();
    let mut p = Prng::for_run(ctx.seed, &format!("c12-enum-{}-{}", info.name, entry.name()), variant);
    let key_seed = p.array32();
    let prov = *p.pick(&[KeyProv::Generated, KeyProv::RoundTripped, KeyProv::Cloned]);
    let key = if entry.needs_key() { Some(make_key(set, &key_seed, prov)) } else { None };
    let msg_len = if variant == 0 { 8 } else { *p.pick(&MSG_LENS) };
    let ctx_len = if variant == 0 { 0 } else { *p.pick(&CTX_LENS) };
    let base = Op {
        entry,
        msg: p.bytes(msg_len),
        ctx: p.bytes(ctx_len),
        stream: p.bytes(160),
        rng_plan: vec![],
        rng_errno: 0,
        kplan: vec![],
    };
    // fault-point discovery: a fault-free recording run
    let o0 = exec(set, key.as_deref(), &base);
    out.evals += 1;
    if o0.res == Res::Unavailable {
        return out;
    }
    out.sigs.insert(signature(info.name, prov, &base, &o0));
    count_fault_events(&mut out, &base, &o0);
    if let Some(inv) = judge(&base, &o0) {
        out.viols.push(viol(info.name, &key_seed, prov, &[base.clone()], 0, inv, None, run));
        return out;
    }
    let Res::Ok(ref base_out) = o0.res else {
        out.harness = Some(format!(
            "C12 precondition: fault-free {} on {} returned {} (not a C12 matter)",
            entry.name(), info.name, o0.res.show()
        ));
        return out;
    };
    if o0.exhausted {
        out.harness = Some("C12: stream exhausted in fault-free run".into());
        return out;
    }
    out.sample = Some(json!({"set": info.name, "op": base.to_json(), "requests": o0.requests, "drawn_bytes": o0.delivered.len(), "result": o0.res.show()}));
    // I6 determinism guard
    let o0b = exec(set, key.as_deref(), &base);
    if o0b.res != o0.res {
        out.harness = Some(format!("C12 I6: non-deterministic replay of {} on {}", entry.name(), info.name));
        return out;
    }
    let key_bytes_before = key.as_ref().map(|k| k.to_bytes());

    // ---- fault enumeration ----
    let mut faulted_ops: Vec<Op> = Vec::new();
    if entry.is_os() {
        for plan in kernel_fault_plans() {
            let mut op = base.clone();
            op.kplan = plan;
            faulted_ops.push(op);
        }
    } else {
        for req in 0..o0.requests {
            for f in rng_faults() {
                let mut op = base.clone();
                op.rng_plan = vec![(req, f)];
                faulted_ops.push(op);
            }
            // the same device failures reported with an OS errno (a device wrapping the OS does that):
            // "transient-looking" codes must be reported just the same
            for f in [RngFault::ErrClean, RngFault::ErrPartial(7), RngFault::ErrFull] {
                for code in [4u32, 11, 5, 1] {
                    let mut op = base.clone();
                    op.rng_plan = vec![(req, f)];
                    op.rng_errno = code;
                    faulted_ops.push(op);
                }
            }
        }
    }
    for op in &faulted_ops {
        let o = exec(set, key.as_deref(), op);
        out.evals += 1;
        out.sigs.insert(signature(info.name, prov, op, &o));
        count_fault_events(&mut out, op, &o);
        if !o.any_failed {
            // the call completed before reaching the planned fault (e.g. it asked for fewer bytes
            // than the short reads already delivered): legal, counted as configured-but-not-fired
            bump(&mut out.probes, "planned_fault_not_reached", 1);
        }
        if let Some((_, RngFault::ErrPartial(_))) = op.rng_plan.first() {
            bump(&mut out.probes, "partial_write_then_error_with_plausible_prefix", 1);
        }
        if op.rng_plan.first().map(|(i, _)| *i > 0).unwrap_or(false) {
            bump(&mut out.probes, "failure_on_second_request", 1);
        }
        if let Some(inv) = judge(op, &o) {
            out.viols.push(viol(info.name, &key_seed, prov, &[op.clone()], 0, inv, None, run));
            if out.viols.len() >= 3 {
                return out;
            }
        }
    }
    // benign kernel behaviour must not be turned into an error (keeps fault-free and faulted
    // configurations separate); a failure here is a broken precondition, not a C12 verdict
    if entry.is_os() {
        for plan in kernel_benign_plans() {
            let mut op = base.clone();
            op.kplan = plan;
            let o = exec(set, key.as_deref(), &op);
            out.evals += 1;
            out.sigs.insert(signature(info.name, prov, &op, &o));
            count_fault_events(&mut out, &op, &o);
            if let Some(inv) = judge(&op, &o) {
                out.viols.push(viol(info.name, &key_seed, prov, &[op.clone()], 0, inv, None, run));
                continue;
            }
            match &o.res {
                Res::Ok(b) => {
                    if op.kplan.iter().any(|k| matches!(k, KResp::Errno(kernel::EINTR))) {
                        bump(&mut out.probes, "eintr_then_success", 1);
                    }
                    if op.kplan.iter().any(|k| matches!(k, KResp::Short(_))) {
                        bump(&mut out.probes, "short_reads_then_success", 1);
                    }
                    if o.delivered == o0.delivered && b != base_out {
                        out.harness = Some(format!("C12 I6: same delivered bytes, different result for {}", entry.name()));
                        return out;
                    }
                }
                other => {
                    out.harness = Some(format!(
                        "C12 precondition: benign kernel behaviour made {} return {}",
                        entry.name(), other.show()
                    ));
                    return out;
                }
            }
        }
    }
    // failed calls must not have disturbed the key (I6, harness guard) and the healthy op repeats
    if let (Some(k), Some(before)) = (key.as_ref(), key_bytes_before.as_ref()) {
        if &k.to_bytes() != before {
            out.harness = Some("C12 I6: key serialisation changed across failed calls".into());
            return out;
        }
    }
    let o0c = exec(set, key.as_deref(), &base);
    if o0c.res != o0.res {
        out.harness = Some("C12 I6: healthy operation changed after failed operations".into());
        return out;
    }

    // ---- degenerate but legal device outputs: all-zero and all-one draws are draws like any other ----
    for fillv in [0x00u8, 0xFF] {
        let mut op = base.clone();
        op.stream.iter_mut().for_each(|b| *b = fillv);
        let o = exec(set, key.as_deref(), &op);
        out.evals += 1;
        bump(&mut out.probes, "degenerate_stream_runs", 1);
        if let Some(inv) = judge(&op, &o) {
            out.viols.push(viol(info.name, &key_seed, prov, &[op.clone()], 0, inv, None, run));
            return out;
        }
        if !matches!(o.res, Res::Ok(_)) {
            out.harness = Some(format!("C12 precondition: fault-free {} returned {} for a constant draw", entry.name(), o.res.show()));
            return out;
        }
    }

    // ---- I4: every drawn bit matters ----
    let d = o0.delivered.len();
    let need = if entry == Entry::Dudect { 64 } else { 32 };
    if d < need {
        out.viols.push(viol(
            info.name, &key_seed, prov, &[base.clone()], 0,
            (
                "I4-short-draw".into(),
                format!("only {d} bytes of randomness were drawn during a fault-free call"),
                format!("at least {need} bytes (xi / rnd are 32 bytes each)"),
            ),
            None, run,
        ));
        return out;
    }
    for bit in 0..d * 8 {
        let mut op = base.clone();
        op.stream[bit / 8] ^= 1 << (bit % 8);
        let o = exec(set, key.as_deref(), &op);
        out.evals += 1;
        if let Some(inv) = judge(&op, &o) {
            out.viols.push(viol(info.name, &key_seed, prov, &[op.clone()], 0, inv, None, run));
            break;
        }
        match &o.res {
            Res::Ok(b) if b == base_out => {
                out.viols.push(viol(
                    info.name, &key_seed, prov, &[base.clone()], 0,
                    (
                        "I4-draw-bit-unused".into(),
                        format!("flipping bit {bit} of the {d} drawn bytes leaves the result unchanged"),
                        "every drawn bit influences the result".into(),
                    ),
                    Some(bit), run,
                ));
                break;
            }
            Res::Ok(_) => {}
            other => {
                out.harness = Some(format!("C12 precondition: fault-free {} returned {} after a bit flip in the draw", entry.name(), other.show()));
                return out;
            }
        }
    }
    bump(&mut out.probes, "i4_bits_checked", (d * 8) as u64);
    let mut dg = Digest::new();
    dg.bytes(base_out);
    out.digest = dg.0;
    out
}

/// One seeded history: a key, 3..12 operations, faults on some of them.
fn history_run(ctx: &Ctx, run: u64) -> RunOut {
    let mut out = RunOut::default();
    let mut p = Prng::for_run(ctx.seed, "c12-history", run);
    let all = sets::sets();
    let set = *p.pick(&all);
    let info = set.info();
    let key_seed = p.array32();
    let prov = *p.pick(&[KeyProv::Generated, KeyProv::RoundTripped, KeyProv::Cloned]);
    let key = make_key(set, &key_seed, prov);
    let key_bytes = key.to_bytes();
    let n_ops = 3 + p.usize_below(10);
    // swarm: per-run fault rate and enabled entry subset
    let fault_pct = *p.pick(&[0u64, 20, 40, 70]);
    let checked = ctx.flavour == "checked";
    let entries: Vec<Entry> = {
        // the constant-time test entry point is left out of the checked flavour (see `run`)
        let all_e: Vec<Entry> = all_entries().into_iter().filter(|e| !(checked && *e == Entry::Dudect)).collect();
        let mut e: Vec<Entry> = all_e.iter().copied().filter(|_| p.chance(2, 3)).collect();
        if e.is_empty() {
            e = all_e;
        }
        e
    };
    let faults = rng_faults();
    let kfails = kernel_fault_plans();
    let kbenign = kernel_benign_plans();
    let mut ops: Vec<Op> = Vec::new();
    let mut dg = Digest::new();
    let mut healthy: Vec<(usize, Res)> = Vec::new();
    for _ in 0..n_ops {
        let entry = *p.pick(&entries);
        let msg_len = *p.pick(&MSG_LENS[..7]);
        let ctx_len = *p.pick(&CTX_LENS);
        let mut op = Op { entry, msg: p.bytes(msg_len), ctx: p.bytes(ctx_len), stream: p.bytes(160), rng_plan: vec![], rng_errno: 0, kplan: vec![] };
        let faulty = p.chance(fault_pct, 100);
        if entry.is_os() {
            op.kplan = if faulty { p.pick(&kfails).clone() } else { p.pick(&kbenign).clone() };
        } else if faulty {
            let req = if entry == Entry::Dudect { p.usize_below(2) } else { 0 };
            op.rng_plan = vec![(req, *p.pick(&faults))];
            op.rng_errno = *p.pick(&[0u32, 0, 4, 11, 5]);
        }
        ops.push(op);
        let idx = ops.len() - 1;
        let op = &ops[idx];
        let o = exec(set, Some(key.as_ref()), op);
        out.evals += 1;
        if o.res == Res::Unavailable {
            continue;
        }
        out.sigs.insert(signature(info.name, prov, op, &o));
        count_fault_events(&mut out, op, &o);
        dg.str(o.res.class());
        if let Res::Ok(b) = &o.res {
            dg.bytes(b);
        }
        if op.faulted() && !o.any_failed {
            // a fault planned on a request index the call never reached: legal, just not fired
            bump(&mut out.probes, "planned_fault_not_reached", 1);
        }
        if let Some(inv) = judge(op, &o) {
            out.viols.push(viol(info.name, &key_seed, prov, &ops, idx, inv, None, run));
            break;
        }
        if !o.any_failed {
            match &o.res {
                Res::Ok(_) => healthy.push((idx, o.res.clone())),
                other => {
                    out.harness = Some(format!("C12 precondition: fault-free {} returned {}", op.entry.name(), other.show()));
                    return out;
                }
            }
        }
    }
    if out.viols.is_empty() {
        // I6: recovery — healthy operations replay identically after the failures, key untouched
        if key.to_bytes() != key_bytes {
            out.harness = Some("C12 I6: key changed during history".into());
            return out;
        }
        if let Some((idx, res)) = healthy.first() {
            let o = exec(set, Some(key.as_ref()), &ops[*idx]);
            out.evals += 1;
            if &o.res != res {
                out.harness = Some("C12 I6: healthy operation not reproducible after failures".into());
                return out;
            }
            bump(&mut out.probes, "recovered_after_failures", 1);
        }
    }
    if run == 0 {
        out.sample = Some(json!({"set": info.name, "history": ops.iter().map(|o| json!({"op": o.entry.name(), "msg_len": o.msg.len(), "ctx_len": o.ctx.len(), "fault": fault_sig(o)})).collect::<Vec<_>>()}));
    }
    out.digest = dg.0;
    out
}

pub fn run(ctx: &Ctx) -> i32 {
    let all = sets::sets();
    let checked = ctx.flavour == "checked";
    let variants: u64 = match ctx.tier {
        Tier::Quick => if ctx.scale < 100 { 1 } else { 3 },
        Tier::Thorough => ctx.scaled(if checked { 4 } else { 16 }),
    };
    let histories: u64 = match ctx.tier {
        Tier::Quick => ctx.scaled(20_000),
        Tier::Thorough => ctx.scaled(if checked { 40_000 } else { 400_000 }),
    };
    // In the checked flavour the constant-time test entry point is left out: with rejection
    // disabled its intermediate values violate the library's self-checks by construction.
    let entries: Vec<Entry> = all_entries().into_iter().filter(|e| !(checked && *e == Entry::Dudect)).collect();
    let mut units: Vec<(usize, Entry, u64)> = Vec::new();
    for (si, _) in all.iter().enumerate() {
        for e in &entries {
            for v in 0..variants {
                units.push((si, *e, v));
            }
        }
    }
    let n_enum = units.len();
    let total = n_enum + histories as usize;
    let outs = run_indexed(total, ctx.workers, |i| {
        if i < n_enum {
            let (si, e, v) = units[i];
            enum_unit(ctx, all[si], e, v, i as u64)
        } else {
            let mut o = history_run(ctx, (i - n_enum) as u64);
            for v in &mut o.viols {
                v.run = i as u64;
            }
            o
        }
    });
    finish(ctx, outs, n_enum, histories, checked)
}

fn finish(ctx: &Ctx, outs: Vec<RunOut>, n_enum: usize, histories: u64, checked: bool) -> i32 {
    let mut evals = 0u64;
    let mut sigs = BTreeSet::new();
    let mut viols = Vec::new();
    let mut fired = std::collections::BTreeMap::new();
    let mut configured = std::collections::BTreeMap::new();
    let mut probes = std::collections::BTreeMap::new();
    let mut seam = 0u64;
    let mut dg = Digest::new();
    let mut samples = Vec::new();
    for o in outs {
        if let Some(h) = o.harness {
            harness_error(&h);
        }
        evals += o.evals;
        sigs.extend(o.sigs);
        viols.extend(o.viols);
        for (k, v) in o.fired {
            bump(&mut fired, &k, v);
        }
        for (k, v) in o.configured {
            bump(&mut configured, &k, v);
        }
        for (k, v) in o.probes {
            bump(&mut probes, &k, v);
        }
        seam += o.seam_events;
        dg.u64(o.digest);
        if let Some(s) = o.sample {
            if samples.len() < 6 {
                samples.push(s);
            }
        }
    }
    // minimise before reporting
    let viols: Vec<Violation> = viols.into_iter().take(8).map(|v| minimise(v)).collect();
    let (code, new, kn) = report_violations(ctx, &viols);
    let wall = ctx.wall();
    write_evidence(ctx, Evidence {
        level: "fault_enumeration",
        evaluations: evals,
        signatures: sigs.into_iter().collect(),
        rule: "Enumeration: for each (set, entry point, seeded key/message/context variant) a fault-free recording run discovers the seam requests; then every request index x every RNG fault kind {err_clean, err_full, err_partial(n) for n=1..31}, and for the OS entry points every kernel plan {bytes already delivered 0/1/7/16/31} x {EINTR burst 0..3} x {6 errnos, return 0, return>len, return<-1, errno 0}, plus benign short-read/EINTR patterns; then all single-bit changes of the drawn bytes (I4). Seeded search: histories of 3..12 operations on one key with per-run fault rate and entry subset. A case is distinct by (set, entry point, key provenance, fault kind and position class, message and context length class, outcome class); all are non-trivial because each executes a real library call under an owned seam.".into(),
        samples,
        exhaustive: false,
        extra: json!({
            "fault_space_enumerated_completely": true,
            "enumeration_units": n_enum,
            "seeded_histories": histories,
            "runs": n_enum as u64 + histories,
            "runs_per_hour": if wall > 0.0 { ((n_enum as u64 + histories) as f64 / wall * 3600.0) as u64 } else { 0 },
            "simulated_time_seam_events": seam,
            "faults_configured": configured,
            "faults_fired": fired,
            "reach_probes": probes,
            "history_digest": format!("{:016x}", dg.0),
            "real_vs_stub": REAL_STUB,
            "dudect_entry_excluded": checked,
            "sets": sets::sets().iter().map(|s| s.info().name).collect::<Vec<_>>(),
        }),
        assumptions: vec![
            "I4/I5 can misfire only on a SHAKE256 near-collision (probability < 2^-128 per evaluation)".into(),
            "kernel seam: x86-64 Linux, getrandom 0.2.x reaching the kernel through libc `syscall`; the zero-length availability probe is always answered 0".into(),
            "contexts longer than 255 bytes are excluded (they return Err for a reason that belongs to C07)".into(),
        ],
        violations: new,
        known_findings: kn,
    });
    code
}

// ---------------------------------------------------------------------------------------------
// replay and minimisation

/// Re-execute a replay body; returns the invariant id observed (None = no violation).
pub fn replay_body(body: &Value) -> Result<Option<(String, String, String)>, String> {
    let set = sets::set_by_name(body["set"].as_str().ok_or("no set")?).ok_or("set not compiled in")?;
    let key_seed = unhx32(&body["key"]["from_seed"]);
    let prov = KeyProv::from_name(body["key"]["provenance"].as_str().unwrap_or("generated")).ok_or("bad provenance")?;
    let ops: Vec<Op> = body["ops"].as_array().ok_or("no ops")?.iter().map(Op::from_json).collect::<Option<Vec<_>>>().ok_or("bad op")?;
    let focus = body["focus"].as_u64().unwrap_or(0) as usize;
    if focus >= ops.len() {
        return Err("focus out of range".into());
    }
    let key = make_key(set, &key_seed, prov);
    let mut last = None;
    for (i, op) in ops.iter().enumerate() {
        let o = exec(set, Some(key.as_ref()), op);
        if i == focus {
            last = Some(o);
            break;
        }
    }
    let o = last.unwrap();
    if let Some(inv) = judge(&ops[focus], &o) {
        return Ok(Some(inv));
    }
    if !o.any_failed && matches!(o.res, Res::Ok(_)) {
        let need = if ops[focus].entry == Entry::Dudect { 64 } else { 32 };
        if o.delivered.len() < need {
            return Ok(Some((
                "I4-short-draw".into(),
                format!("only {} bytes of randomness were drawn during a fault-free call", o.delivered.len()),
                format!("at least {need} bytes (xi / rnd are 32 bytes each)"),
            )));
        }
    }
    if let Some(bit) = body["bit"].as_u64() {
        let bit = bit as usize;
        let mut op2 = ops[focus].clone();
        if bit / 8 < op2.stream.len() {
            op2.stream[bit / 8] ^= 1 << (bit % 8);
            let o2 = exec(set, Some(key.as_ref()), &op2);
            if let (Res::Ok(a), Res::Ok(b)) = (&o.res, &o2.res) {
                if a == b {
                    return Ok(Some((
                        "I4-draw-bit-unused".into(),
                        format!("flipping bit {bit} of the drawn bytes leaves the result unchanged"),
                        "every drawn bit influences the result".into(),
                    )));
                }
            }
        }
    }
    Ok(None)
}

fn still(body: &Value, inv: &str) -> bool { matches!(replay_body(body), Ok(Some((i, _, _))) if i == inv) }

pub fn minimise(v: Violation) -> Violation {
    let inv = v.invariant.clone();
    let mut body = v.body.clone();
    if !still(&body, &inv) {
        return v; // not reproducible from the body alone: report as found
    }
    // 1. drop every operation but the focus one
    let focus = body["focus"].as_u64().unwrap_or(0) as usize;
    if body["ops"].as_array().map(|a| a.len()).unwrap_or(0) > 1 {
        let mut b2 = body.clone();
        b2["ops"] = json!([body["ops"][focus].clone()]);
        b2["focus"] = json!(0);
        if still(&b2, &inv) {
            body = b2;
        } else {
            // drop operations before the focus one at a time
            let mut i = 0;
            while i < body["focus"].as_u64().unwrap() as usize {
                let mut b3 = body.clone();
                b3["ops"].as_array_mut().unwrap().remove(i);
                b3["focus"] = json!(body["focus"].as_u64().unwrap() - 1);
                if still(&b3, &inv) {
                    body = b3;
                } else {
                    i += 1;
                }
            }
            let f = body["focus"].as_u64().unwrap() as usize;
            body["ops"].as_array_mut().unwrap().truncate(f + 1);
        }
    }
    let f = body["focus"].as_u64().unwrap() as usize;
    // 2. shrink arguments of the focus op
    let tries: Vec<Box<dyn Fn(&mut Value)>> = vec![
        Box::new(move |b| b["ops"][f]["msg"] = json!("")),
        Box::new(move |b| b["ops"][f]["ctx"] = json!("")),
        Box::new(move |b| b["key"]["provenance"] = json!("generated")),
        Box::new(move |b| {
            if let Some(p) = b["ops"][f]["rng_plan"].as_array_mut() {
                for e in p.iter_mut() {
                    *e = json!({"kind":"err_clean","req": e["req"].clone()});
                }
            }
        }),
        Box::new(move |b| {
            if let Some(p) = b["ops"][f]["kernel_plan"].as_array_mut() {
                // keep only the failing responses
                p.retain(|k| KResp::from_json(k).map(|k| k.is_failure()).unwrap_or(true));
            }
        }),
        Box::new(move |b| {
            let s = b["ops"][f]["stream"].as_str().unwrap_or("").len();
            b["ops"][f]["stream"] = json!("00".repeat(s / 2));
        }),
        Box::new(move |b| b["key"]["from_seed"] = json!("00".repeat(32))),
    ];
    for t in &tries {
        let mut b2 = body.clone();
        t(&mut b2);
        if b2 != body && still(&b2, &inv) {
            body = b2;
        }
    }
    if let Ok(Some((_, obs, exp))) = replay_body(&body) {
        body["observed"] = json!(obs);
        body["expected"] = json!(exp);
    }
    body["minimised"] = json!(true);
    Violation { body, ..v }
}
