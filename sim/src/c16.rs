use crate::common::*;
pub fn run(_ctx: &Ctx) -> i32 { harness_error("c16 not built yet") }
pub fn replay_body(_b: &serde_json::Value) -> Result<Option<(String, String, String)>, String> { Err("todo".into()) }
