//! C16 — key material is erased when keys are dropped.
//!
//! The simulator owns the lifetime of key objects: it decides by which path an object came to
//! exist, what was done with it (including operations during which the RNG device failed), in
//! which container it sits, and when it is destroyed; then it reads every byte of the slot.

use crate::arena::DropObs;
use crate::common::*;
use crate::prng::Prng;
use crate::sets::{self, C16Case, Container, DynSet, KeyTy, Mode, Prov, Use, MODES};
use serde_json::{json, Value};
use std::collections::{BTreeMap, BTreeSet};

const SK_PROVS: [Prov; 11] = [
    Prov::KeygenSeed, Prov::KeygenRng, Prov::KeygenOs, Prov::FromBytes, Prov::CloneOf, Prov::CloneOfFromBytes,
    Prov::FromBytesZeroPrefix, Prov::FromBytesLostZero, Prov::FromBytesBitRot, Prov::FromBytesZeroBlock, Prov::FromBytesTornOverZero,
];
const PK_PROVS: [Prov; 14] = [
    Prov::KeygenSeed, Prov::KeygenRng, Prov::KeygenOs, Prov::FromBytes, Prov::CloneOf, Prov::CloneOfFromBytes,
    Prov::Derived, Prov::DerivedFromRoundTripped,
    Prov::FromBytesZeroPrefix, Prov::FromBytesLostZero, Prov::FromBytesLostFF, Prov::FromBytesBitRot, Prov::FromBytesZeroBlock, Prov::FromBytesTornOverZero,
];
const CONTAINERS: [Container; 5] = [Container::Bare, Container::Tuple, Container::OptionSome, Container::ResultOk, Container::Array2];

fn use_name(u: &Use) -> String {
    match u {
        Use::Sign(m) => format!("sign:{}", m.name()),
        Use::SignRngFails => "sign_rng_fails".into(),
        Use::Verify(m) => format!("verify:{}", m.name()),
        Use::VerifyBad => "verify_bad".into(),
        Use::ToBytes => "to_bytes".into(),
        Use::GetPublic => "get_public".into(),
    }
}

fn use_from(s: &str) -> Option<Use> {
    if let Some(m) = s.strip_prefix("sign:") {
        return Mode::from_name(m).map(Use::Sign);
    }
    if let Some(m) = s.strip_prefix("verify:") {
        return Mode::from_name(m).map(Use::Verify);
    }
    match s {
        "sign_rng_fails" => Some(Use::SignRngFails),
        "verify_bad" => Some(Use::VerifyBad),
        "to_bytes" => Some(Use::ToBytes),
        "get_public" => Some(Use::GetPublic),
        _ => None,
    }
}

fn case_json(set: &str, c: &C16Case) -> Value {
    json!({
        "set": set,
        "type": format!("{:?}", c.ty),
        "provenance": format!("{:?}", c.prov),
        "uses": c.uses.iter().map(use_name).collect::<Vec<_>>(),
        "container": format!("{:?}", c.container),
        "seed_xi": hx(&c.seed),
        "stream": hx(&c.stream),
        "msg": hx(&c.msg),
        "ctx": hx(&c.ctx),
    })
}

fn case_from(v: &Value) -> Option<(&'static dyn DynSet, C16Case)> {
    let set = sets::set_by_name(v["set"].as_str()?)?;
    let ty = match v["type"].as_str()? {
        "Sk" => KeyTy::Sk,
        "Pk" => KeyTy::Pk,
        _ => return None,
    };
    let prov = *PK_PROVS.iter().find(|p| format!("{p:?}") == v["provenance"].as_str().unwrap_or(""))?;
    let container = *CONTAINERS.iter().find(|p| format!("{p:?}") == v["container"].as_str().unwrap_or(""))?;
    let uses = v["uses"].as_array()?.iter().map(|u| use_from(u.as_str()?)).collect::<Option<Vec<_>>>()?;
    Some((set, C16Case { ty, prov, uses, container, seed: unhx32(&v["seed_xi"]), stream: unhx(&v["stream"]), msg: unhx(&v["msg"]), ctx: unhx(&v["ctx"]) }))
}

enum Verdict {
    Held(Vec<DropObs>),
    Unavailable,
    Harness(String),
    Violated(Vec<DropObs>, DropObs),
}

fn judge(set: &dyn DynSet, c: &C16Case) -> Verdict {
    let r = {
        let _watch = watch::enter(&format!("lifecycle {}", c.label(set.info().name)), String::new);
        catch(|| set.c16_case(c))
    };
    match r {
        Err(p) => Verdict::Harness(format!("C16: panic while driving lifecycle {}: {p}", c.label(set.info().name))),
        Ok(Err(e)) if e.starts_with("unavailable") => Verdict::Unavailable,
        Ok(Err(e)) => Verdict::Harness(format!("C16: {e} ({})", c.label(set.info().name))),
        Ok(Ok(obs)) => {
            for o in &obs {
                // guard against a vacuous observation: the window must hold a live key before the drop
                // (a key loaded from a zero-filled store is mostly zero by construction: there the
                // guard only asks for the 64-byte public-key hash to be present)
                let vacuous = if c.prov.faulted() { o.nonzero_before < 32 } else { !o.needle_found || o.nonzero_before * 4 < o.size };
                if vacuous {
                    return Verdict::Harness(format!(
                        "C16: window `{}` of {} does not look like a live key before the drop (rho found: {}, non-zero {}/{})",
                        o.window, o.label, o.needle_found, o.nonzero_before, o.size
                    ));
                }
            }
            if let Some(bad) = obs.iter().find(|o| o.nonzero_after != 0) {
                let b = bad.clone();
                return Verdict::Violated(obs, b);
            }
            Verdict::Held(obs)
        }
    }
}

fn gen_uses(p: &mut Prng, ty: KeyTy, n: usize) -> Vec<Use> {
    (0..n)
        .map(|_| match ty {
            KeyTy::Sk => match p.below(5) {
                0 => Use::Sign(*p.pick(&MODES)),
                1 => Use::SignRngFails,
                2 => Use::ToBytes,
                3 => Use::GetPublic,
                _ => Use::Sign(Mode::Pure),
            },
            KeyTy::Pk => match p.below(4) {
                0 => Use::Verify(*p.pick(&MODES)),
                1 => Use::VerifyBad,
                2 => Use::ToBytes,
                _ => Use::Verify(Mode::Pure),
            },
        })
        .collect()
}

struct CaseOut {
    evals: u64,
    windows: u64,
    bytes: u64,
    sig: Option<String>,
    viol: Option<Violation>,
    harness: Option<String>,
    sample: Option<Value>,
    unavailable: bool,
    drops: u64,
}

pub fn run(ctx: &Ctx) -> i32 {
    let all: Vec<&'static dyn DynSet> = if ctx.extra.contains_key("only-set") {
        sets::sets().into_iter().filter(|s| s.info().name == ctx.extra["only-set"]).collect()
    } else {
        sets::sets()
    };
    let variants: u64 = match ctx.tier {
        Tier::Quick => ctx.scaled(20),
        Tier::Thorough => ctx.scaled(40),
    };
    let skip_os = cfg!(miri);
    // Under Miri (harness validation only) a reduced matrix: every container, four provenances
    let reduced = ctx.extra.contains_key("reduced");
    let mut cases: Vec<(usize, C16Case)> = Vec::new();
    for (si, set) in all.iter().enumerate() {
        for (ty, provs) in [(KeyTy::Sk, &SK_PROVS[..]), (KeyTy::Pk, &PK_PROVS[..])] {
            for prov in provs {
                if skip_os && *prov == Prov::KeygenOs {
                    continue;
                }
                if reduced && !matches!((ty, *prov), (KeyTy::Sk, Prov::KeygenSeed) | (KeyTy::Pk, Prov::Derived)) {
                    continue;
                }
                if *prov == Prov::FromBytesTornOverZero {
                    // crash-point enumeration: the write of the stored artefact onto a zero-filled medium is
                    // torn after every possible byte count k; the key that loads is destroyed unused
                    if cfg!(miri) {
                        continue;
                    }
                    let len = if ty == KeyTy::Sk { set.info().sk_len } else { set.info().pk_len };
                    let mut p = Prng::for_run(ctx.seed, &format!("c16-{}-{ty:?}-torn", set.info().name), 0);
                    let seed = p.array32();
                    for k in 1..len {
                        let mut stream = vec![0u8; 64];
                        stream[2..4].copy_from_slice(&(k as u16).to_le_bytes());
                        cases.push((si, C16Case { ty, prov: *prov, uses: Vec::new(), container: Container::Bare, seed, stream, msg: Vec::new(), ctx: Vec::new() }));
                    }
                    continue;
                }
                for cont in CONTAINERS {
                    if reduced && ty == KeyTy::Pk && cont != Container::Bare {
                        continue;
                    }
                    for v in 0..variants {
                        let mut p = Prng::for_run(ctx.seed, &format!("c16-{}-{ty:?}-{prov:?}-{cont:?}", set.info().name), v);
                        let n_uses = if v == 0 { 0 } else { 1 + p.usize_below(5) };
                        let uses = gen_uses(&mut p, ty, n_uses);
                        let (ml, cl) = (p.usize_below(200), p.usize_below(40));
                        let seed = p.array32();
                        let mut stream = p.bytes(64);
                        if *prov == Prov::FromBytesZeroBlock {
                            // enumerate (block size, block position) with the variant index, offset per container
                            stream[1] = (v as usize + CONTAINERS.iter().position(|c| *c == cont).unwrap_or(0) * 5) as u8;
                        }
                        cases.push((si, C16Case { ty, prov: *prov, uses, container: cont, seed, stream, msg: p.bytes(ml), ctx: p.bytes(cl) }));
                    }
                }
            }
        }
    }
    let outs = run_indexed(cases.len(), ctx.workers, |i| {
        let (si, c) = &cases[i];
        let set = all[*si];
        let name = set.info().name;
        let mut out = CaseOut { evals: 1, windows: 0, bytes: 0, sig: None, viol: None, harness: None, sample: None, unavailable: false, drops: 0 };
        match judge(set, c) {
            Verdict::Unavailable => out.unavailable = true,
            Verdict::Harness(h) => out.harness = Some(h),
            Verdict::Held(obs) => {
                out.drops = 1;
                out.windows = obs.len() as u64;
                out.bytes = obs.iter().map(|o| o.size as u64).sum();
                let kinds: BTreeSet<&str> = c.uses.iter().map(|u| match u {
                    Use::Sign(_) => "sign", Use::SignRngFails => "sign_rng_fails", Use::Verify(_) => "verify",
                    Use::VerifyBad => "verify_bad", Use::ToBytes => "to_bytes", Use::GetPublic => "get_public",
                }).collect();
                out.sig = Some(format!("{name}|{:?}|{:?}|{:?}|{}", c.ty, c.prov, c.container, kinds.into_iter().collect::<Vec<_>>().join("+")));
                if i % 97 == 0 {
                    out.sample = Some(json!({"case": case_json(name, c), "windows": obs.iter().map(|o| json!({"window": o.window, "bytes": o.size, "nonzero_before": o.nonzero_before, "nonzero_after": o.nonzero_after})).collect::<Vec<_>>()}));
                }
            }
            Verdict::Violated(_obs, bad) => {
                out.drops = 1;
                let mut body = case_json(name, c);
                body["window"] = json!(bad.window);
                body["observed"] = json!(format!(
                    "{} of {} bytes of the dropped {} object are non-zero (first at offset {})",
                    bad.nonzero_after, bad.size, bad.window, bad.first_nonzero_after.unwrap_or(0)
                ));
                body["expected"] = json!("every byte of the dropped key object is zero");
                out.viol = Some(Violation { run: i as u64, invariant: "not-erased".into(), finding_key: format!("not-erased:{}", bad.window), body });
            }
        }
        out
    });
    let mut evals = 0u64;
    let (mut windows, mut bytes, mut drops, mut unavailable) = (0u64, 0u64, 0u64, 0u64);
    let mut sigs = BTreeSet::new();
    let mut viols = Vec::new();
    let mut samples = Vec::new();
    for o in outs {
        if let Some(h) = o.harness {
            harness_error(&h);
        }
        evals += o.evals;
        windows += o.windows;
        bytes += o.bytes;
        drops += o.drops;
        if o.unavailable {
            unavailable += 1;
        }
        if let Some(s) = o.sig {
            sigs.insert(s);
        }
        if let Some(v) = o.viol {
            viols.push(v);
        }
        if let Some(s) = o.sample {
            if samples.len() < 5 {
                samples.push(s);
            }
        }
    }
    let viol_total = viols.len();
    let mut by_key: BTreeMap<String, Violation> = BTreeMap::new();
    for v in viols {
        by_key.entry(format!("{}|{}", v.finding_key, v.body["set"])).or_insert(v);
    }
    let viols: Vec<Violation> = by_key.into_values().map(minimise).collect();
    let (code, new, kn) = report_violations(ctx, &viols);
    let sizes: BTreeMap<&str, Value> = all.iter().map(|s| (s.info().name, json!({"PrivateKey_bytes": s.sizes().0, "PublicKey_bytes": s.sizes().1}))).collect();
    write_evidence(ctx, Evidence {
        level: "exploration",
        evaluations: evals,
        signatures: sigs.into_iter().collect(),
        rule: "Exhaustive matrix (set x key type x provenance {keygen_from_seed, try_keygen_with_rng, try_keygen (OS seam), try_from_bytes, clone, clone of deserialised, get_public_key, get_public_key of round-tripped, and keys loaded from a FAULTED store: first 32 bytes never written (zero), artefact lost (all 0x00 / all 0xFF), one aligned 32/64/128-byte block never written (zero), seeded bit rot} x container {bare, (pk,sk) tuple, Option, Result<(pk,sk),_>, [key;2]}) times seeded use histories of 0..5 events (sign in four modes, a signing attempt during which the RNG device fails, verify good/bad, serialise, derive); plus crash-point enumeration: for one key pair per set, the write of the serialised key onto a zero-filled medium torn after EVERY byte count k (first k bytes new, rest zero), the key that loads destroyed unused (bare). The object is destroyed in place (ptr::drop_in_place) in a simulator-owned slot and every byte of each key window is read back with volatile reads. A case is distinct by (set, type, provenance, container, kinds of use); it is non-trivial only if, immediately before the drop, the window contained the key's rho and at least 25% non-zero bytes (otherwise the run aborts as a harness error).".into(),
        samples,
        exhaustive: false,
        extra: json!({
            "matrix_enumerated_completely": true,
            "drop_events": drops,
            "key_windows_inspected": windows,
            "bytes_read_back": bytes,
            "cases_unavailable_in_this_build": unavailable,
            "faults_fired": {"object_destruction": drops},
            "object_sizes": sizes,
            "violating_cases": viol_total,
            "runs": evals,
            "real_vs_stub": REAL_STUB,
            "miri": cfg!(miri),
            "sets": all.iter().map(|s| s.info().name).collect::<Vec<_>>(),
        }),
        assumptions: vec![
            "Drop here is history-independent (no interior state): the strength of the check is the exhaustive matrix and the every-byte read-back, not the number of histories".into(),
            "copies the compiler leaves behind when a key is moved (including the by-value self of into_bytes) are outside the statement and are not examined".into(),
            "the harness's unsafe read-back discipline is itself validated under Miri in the thorough tier (ML-DSA-44)".into(),
        ],
        violations: new,
        known_findings: kn,
    });
    code
}

pub fn replay_body(body: &Value) -> Result<Option<(String, String, String)>, String> {
    let (set, c) = case_from(body).ok_or("bad C16 replay body")?;
    match judge(set, &c) {
        Verdict::Held(_) => Ok(None),
        Verdict::Unavailable => Err("case unavailable in this build".into()),
        Verdict::Harness(h) => Err(h),
        Verdict::Violated(_, bad) => Ok(Some((
            "not-erased".into(),
            format!("{} of {} bytes of the dropped {} object are non-zero (first at offset {})", bad.nonzero_after, bad.size, bad.window, bad.first_nonzero_after.unwrap_or(0)),
            "every byte of the dropped key object is zero".into(),
        ))),
    }
}

fn minimise(v: Violation) -> Violation {
    let mut body = v.body.clone();
    let still = |b: &Value| matches!(replay_body(b), Ok(Some(_)));
    if !still(&body) {
        return v;
    }
    let tries: Vec<Box<dyn Fn(&mut Value)>> = vec![
        Box::new(|b| b["uses"] = json!([])),
        Box::new(|b| b["container"] = json!("Bare")),
        Box::new(|b| b["provenance"] = json!("KeygenSeed")),
        Box::new(|b| b["msg"] = json!("")),
        Box::new(|b| b["ctx"] = json!("")),
        Box::new(|b| b["seed_xi"] = json!("00".repeat(32))),
        Box::new(|b| b["set"] = json!("ml-dsa-44")),
    ];
    for t in &tries {
        let mut b2 = body.clone();
        t(&mut b2);
        if b2 != body && still(&b2) {
            body = b2;
        }
    }
    if let Ok(Some((_, obs, _))) = replay_body(&body) {
        body["observed"] = json!(obs);
    }
    body["minimised"] = json!(true);
    Violation { body, ..v }
}
