//! Shared plumbing: run context, parallel run scheduler, panic capture, evidence/replay writers.

use serde_json::{json, Value};
use std::cell::RefCell;
use std::collections::BTreeMap;
use std::panic::{self, AssertUnwindSafe};
use std::path::PathBuf;
use std::sync::atomic::{AtomicUsize, Ordering};
use std::sync::Mutex;
use std::time::Instant;

#[derive(Clone, Copy, PartialEq, Eq, Debug)]
pub enum Tier {
    Quick,
    Thorough,
}

impl Tier {
    pub fn name(&self) -> &'static str {
        match self {
            Tier::Quick => "quick",
            Tier::Thorough => "thorough",
        }
    }
}

pub struct Ctx {
    pub prop: String,
    pub tier: Tier,
    pub seed: u64,
    pub flavour: String,
    pub evidence: Option<PathBuf>,
    pub replay_dir: PathBuf,
    pub known: Option<PathBuf>,
    pub workers: usize,
    pub start: Instant,
    /// scale factor for budgets (testing aid; 100 = nominal)
    pub scale: u64,
    pub extra: BTreeMap<String, String>,
}

impl Ctx {
    pub fn wall(&self) -> f64 { self.start.elapsed().as_secs_f64() }
    pub fn scaled(&self, n: u64) -> u64 { (n * self.scale / 100).max(1) }
}

/// Liveness watch: every worker publishes what it is executing; a monitor thread (main.rs) turns an operation
/// that does not return within the deadline into a report (a stuck thread cannot be killed: the process exits).
pub mod watch {
    use std::collections::HashMap;
    use std::sync::atomic::{AtomicBool, Ordering};
    use std::sync::Mutex;
    use std::thread::ThreadId;
    use std::time::Instant;

    pub struct Slot {
        pub since: Instant,
        pub what: String,
        pub at_op: usize,
        /// replay body of the history being executed (empty: none)
        pub body: String,
    }
    pub static SLOTS: Mutex<Option<HashMap<ThreadId, Slot>>> = Mutex::new(None);
    /// set while C13 ("every call returns a value or an error") is being judged
    pub static JUDGING_RETURNS: AtomicBool = AtomicBool::new(false);
    /// set by replay: the file being replayed
    pub static REPLAY_FILE: Mutex<Option<String>> = Mutex::new(None);

    pub fn judging_returns() -> bool { JUDGING_RETURNS.load(Ordering::SeqCst) }
    pub fn set_judging_returns(v: bool) { JUDGING_RETURNS.store(v, Ordering::SeqCst) }

    /// the slot is withdrawn when the guard goes out of scope, on every path including unwinding
    pub struct Guard(());
    impl Drop for Guard {
        fn drop(&mut self) { leave(); }
    }

    #[must_use]
    pub fn enter(what: &str, body: impl FnOnce() -> String) -> Guard {
        let b = if judging_returns() { body() } else { String::new() };
        let mut g = SLOTS.lock().unwrap_or_else(|e| e.into_inner());
        let m = g.get_or_insert_with(HashMap::new);
        m.insert(std::thread::current().id(), Slot { since: Instant::now(), what: what.to_string(), at_op: 0, body: b });
        Guard(())
    }
    pub fn touch(at_op: usize, what: impl FnOnce() -> String) {
        let mut g = SLOTS.lock().unwrap_or_else(|e| e.into_inner());
        if let Some(m) = g.as_mut() {
            if let Some(s) = m.get_mut(&std::thread::current().id()) {
                s.since = Instant::now();
                s.at_op = at_op;
                s.what = what();
            }
        }
    }
    fn leave() {
        let mut g = SLOTS.lock().unwrap_or_else(|e| e.into_inner());
        if let Some(m) = g.as_mut() {
            m.remove(&std::thread::current().id());
        }
    }
    /// a published operation older than `limit_s`: (what, body, at_op, age)
    pub fn overdue(limit_s: u64) -> Option<(String, String, usize, u64)> {
        let g = SLOTS.lock().unwrap_or_else(|e| e.into_inner());
        let m = g.as_ref()?;
        let mut v: Vec<&Slot> = m.values().filter(|s| s.since.elapsed().as_secs() >= limit_s).collect();
        v.sort_by(|a, b| a.what.cmp(&b.what));
        v.first().map(|s| (s.what.clone(), s.body.clone(), s.at_op, s.since.elapsed().as_secs()))
    }
}

/// Exit code for harness trouble: never a property verdict.
pub const EXIT_HARNESS: i32 = 2;

pub fn harness_error(msg: &str) -> ! {
    eprintln!("HARNESS-ERROR: {msg}");
    std::process::exit(EXIT_HARNESS);
}

thread_local! {
    static LAST_PANIC: RefCell<Option<String>> = const { RefCell::new(None) };
}

pub fn install_panic_hook() {
    panic::set_hook(Box::new(|info| {
        let msg = if let Some(s) = info.payload().downcast_ref::<&str>() {
            (*s).to_string()
        } else if let Some(s) = info.payload().downcast_ref::<String>() {
            s.clone()
        } else {
            "<non-string panic>".to_string()
        };
        let msg: String = if msg.len() > 240 { format!("{}…", msg.chars().take(240).collect::<String>()) } else { msg };
        let loc = info.location().map(|l| format!(" at {}:{}", l.file(), l.line())).unwrap_or_default();
        LAST_PANIC.with(|p| *p.borrow_mut() = Some(format!("{msg}{loc}")));
    }));
}

/// Run `f`, converting an unwind into Err(message). Nothing is printed.
pub fn catch<R>(f: impl FnOnce() -> R) -> Result<R, String> {
    LAST_PANIC.with(|p| *p.borrow_mut() = None);
    match panic::catch_unwind(AssertUnwindSafe(f)) {
        Ok(r) => Ok(r),
        Err(_) => Err(LAST_PANIC.with(|p| p.borrow_mut().take()).unwrap_or_else(|| "<panic>".into())),
    }
}

/// Execute `f(0..n)` on `workers` threads; results come back in index order so that every fold
/// over them is independent of the worker count.
pub fn run_indexed<R: Send>(n: usize, workers: usize, f: impl Fn(usize) -> R + Sync) -> Vec<R> {
    let next = AtomicUsize::new(0);
    let slots: Vec<Mutex<Option<R>>> = (0..n).map(|_| Mutex::new(None)).collect();
    let workers = workers.max(1).min(n.max(1));
    std::thread::scope(|s| {
        for _ in 0..workers {
            s.spawn(|| loop {
                let i = next.fetch_add(1, Ordering::Relaxed);
                if i >= n {
                    break;
                }
                let r = f(i);
                *slots[i].lock().unwrap() = Some(r);
            });
        }
    });
    slots.into_iter().map(|m| m.into_inner().unwrap().expect("run slot empty")).collect()
}

pub fn hx(b: &[u8]) -> String { hex::encode(b) }

pub fn unhx(v: &Value) -> Vec<u8> { hex::decode(v.as_str().unwrap_or("")).unwrap_or_default() }

pub fn unhx32(v: &Value) -> [u8; 32] {
    let b = unhx(v);
    let mut a = [0u8; 32];
    if b.len() == 32 {
        a.copy_from_slice(&b);
    }
    a
}

/// FNV-style 64-bit digest over byte strings, used for history digests (not security relevant).
#[derive(Clone)]
pub struct Digest(pub u64);

impl Digest {
    pub fn new() -> Self { Digest(0xcbf2_9ce4_8422_2325) }
    pub fn bytes(&mut self, b: &[u8]) {
        for x in b {
            self.0 ^= u64::from(*x);
            self.0 = self.0.wrapping_mul(0x0100_0000_01b3);
        }
        self.0 ^= b.len() as u64;
        self.0 = self.0.wrapping_mul(0x0100_0000_01b3);
    }
    pub fn str(&mut self, s: &str) { self.bytes(s.as_bytes()); }
    pub fn u64(&mut self, v: u64) { self.bytes(&v.to_le_bytes()); }
}

/// A violation found by a check, before it is written to a replay file.
#[derive(Clone, Debug)]
pub struct Violation {
    pub run: u64,
    pub invariant: String,
    /// stable identity used to match the known-findings file
    pub finding_key: String,
    /// self-contained replay body (explicit bytes, no PRNG positions)
    pub body: Value,
}

pub struct Known {
    pub known: Vec<(String, String, String)>, // property, key, what
}

pub fn load_known(ctx: &Ctx) -> Known {
    let mut k = Known { known: Vec::new() };
    if let Some(p) = &ctx.known {
        if let Ok(txt) = std::fs::read_to_string(p) {
            match serde_json::from_str::<Value>(&txt) {
                Ok(v) => {
                    for e in v["known"].as_array().cloned().unwrap_or_default() {
                        k.known.push((
                            e["property"].as_str().unwrap_or("").to_string(),
                            e["key"].as_str().unwrap_or("").to_string(),
                            e["what"].as_str().unwrap_or("").to_string(),
                        ));
                    }
                }
                Err(e) => harness_error(&format!("known-findings file does not parse: {e}")),
            }
        }
    }
    k
}

/// Write replay files, print VIOLATION / KNOWN-FINDING lines, return the process exit code.
pub fn report_violations(ctx: &Ctx, vs: &[Violation]) -> (i32, usize, usize) {
    let known = load_known(ctx);
    let mut printed_known: Vec<String> = Vec::new();
    let mut new = 0usize;
    let mut kn = 0usize;
    let mut seen_keys: Vec<String> = Vec::new();
    let _ = std::fs::create_dir_all(&ctx.replay_dir);
    for v in vs {
        if let Some((_, key, what)) = known.known.iter().find(|(p, k, _)| *p == ctx.prop && *k == v.finding_key) {
            kn += 1;
            if !printed_known.contains(key) {
                println!("KNOWN-FINDING: property={} {} [{}]", ctx.prop, what, key);
                printed_known.push(key.clone());
            }
            continue;
        }
        new += 1;
        if seen_keys.contains(&v.finding_key) || seen_keys.len() >= 8 {
            continue; // one replay file per distinct finding; the count is still reported
        }
        seen_keys.push(v.finding_key.clone());
        let mut body = v.body.clone();
        body["property"] = json!(ctx.prop);
        body["invariant"] = json!(v.invariant);
        body["finding_key"] = json!(v.finding_key);
        body["seed"] = json!(ctx.seed);
        body["run"] = json!(v.run);
        body["flavour"] = json!(ctx.flavour);
        let path = ctx.replay_dir.join(format!("{}-{}-{}-{}-{}.json", ctx.prop, ctx.flavour, ctx.seed, v.run, seen_keys.len()));
        if let Err(e) = std::fs::write(&path, serde_json::to_string_pretty(&body).unwrap()) {
            harness_error(&format!("cannot write replay file {}: {e}", path.display()));
        }
        println!("VIOLATION property={} replay={}", ctx.prop, path.display());
        println!("  invariant={} observed={} expected={}", v.invariant, body["observed"], body["expected"]);
    }
    (if new > 0 { 1 } else { 0 }, new, kn)
}

pub struct Evidence {
    pub level: &'static str,
    pub evaluations: u64,
    pub signatures: Vec<String>,
    pub rule: String,
    pub samples: Vec<Value>,
    pub exhaustive: bool,
    pub extra: Value,
    pub assumptions: Vec<String>,
    pub violations: usize,
    pub known_findings: usize,
}

pub fn write_evidence(ctx: &Ctx, ev: Evidence) {
    let Some(path) = &ctx.evidence else { return };
    let wall = ctx.wall();
    let mut coverage = json!({
        "evaluations": ev.evaluations,
        "distinct_nontrivial": ev.signatures.len(),
        "rule": ev.rule,
        "samples": ev.samples,
        "exhaustive": ev.exhaustive,
        "flavour": ctx.flavour,
        "workers": ctx.workers,
        "evaluations_per_hour": if wall > 0.0 { (ev.evaluations as f64 / wall * 3600.0) as u64 } else { 0 },
        "signatures": ev.signatures,
    });
    if let (Some(c), Some(e)) = (coverage.as_object_mut(), ev.extra.as_object()) {
        for (k, v) in e {
            c.insert(k.clone(), v.clone());
        }
    }
    let doc = json!({
        "property_id": ctx.prop,
        "tier": ctx.tier.name(),
        "seed": ctx.seed,
        "level": ev.level,
        "coverage": coverage,
        "assumptions": ev.assumptions,
        "wall_s": wall,
        "violations": ev.violations,
        "known_findings_matched": ev.known_findings,
    });
    if let Some(dir) = path.parent() {
        let _ = std::fs::create_dir_all(dir);
    }
    if let Err(e) = std::fs::write(path, serde_json::to_string_pretty(&doc).unwrap()) {
        harness_error(&format!("cannot write evidence {}: {e}", path.display()));
    }
}

pub const REAL_STUB: &str = "real: fips204, sha2, sha3/keccak, zeroize, rand_core(OsRng), getrandom (retry loop, error mapping); \
stub: caller RNG device (SimRng), kernel getrandom(2) (SimKernel, via the libc `syscall` symbol), storage/transmission medium (byte buffers); \
no part of fips204 is modelled";
