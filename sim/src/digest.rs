use crate::common::*;
pub fn run(_ctx: &Ctx) -> i32 { harness_error("digest not built yet") }
