//! `fipsim digest` — the fault-free part of the simulation under a fixed seed, folded into one
//! SHA3-256 digest per enabled parameter set and part. Used by C17: the same seeded run is
//! replayed under every build configuration and the histories are compared.
//!
//! parts: `core` (present in every configuration), `os` (OS-RNG entry points through the kernel
//! seam; only with `default-rng`), `dudect` (constant-time test entry point; only with `dudect`).

use crate::common::*;
use crate::kernel::{self, KResp, KState};
use crate::prng::Prng;
use crate::sets::{self, DynSet, MODES};
use crate::simrng::SimRng;
use sha3::{Digest as _, Sha3_256};

struct Acc(Sha3_256, u64);

impl Acc {
    fn new() -> Self { Acc(Sha3_256::new(), 0) }
    fn bytes(&mut self, tag: &str, b: &[u8]) {
        self.0.update(tag.as_bytes());
        self.0.update((b.len() as u64).to_le_bytes());
        self.0.update(b);
        self.1 += 1;
    }
    fn flag(&mut self, tag: &str, v: bool) { self.bytes(tag, &[u8::from(v)]); }
    fn hex(self) -> (String, u64) { (hx(&self.0.finalize()), self.1) }
}

fn core_part(set: &dyn DynSet, seed: u64, iters: u64) -> Result<(String, u64), String> {
    let info = set.info();
    let mut a = Acc::new();
    for i in 0..iters {
        let mut p = Prng::for_run(seed, &format!("digest-core-{}", info.name), i);
        let xi = p.array32();
        let (pk, sk) = set.keygen_seed(&xi);
        let (pkb, skb) = (pk.to_bytes(), sk.to_bytes());
        a.bytes("pk", &pkb);
        a.bytes("sk", &skb);
        let mut rng = SimRng::healthy(p.bytes(64));
        let (pk2, sk2) = set.keygen_rng(&mut rng).map_err(|e| format!("keygen_rng: {e}"))?;
        a.bytes("pk_rng", &pk2.to_bytes());
        a.bytes("sk_rng", &sk2.to_bytes());
        let sk_rt = set.sk_from_bytes(&skb).map_err(|e| format!("sk round trip: {e}"))?;
        let pk_rt = set.pk_from_bytes(&pkb).map_err(|e| format!("pk round trip: {e}"))?;
        let pk_der = sk.public();
        a.bytes("pk_derived", &pk_der.to_bytes());
        a.bytes("sk_rt", &sk_rt.to_bytes());
        let msg_len = *p.pick(&[0usize, 1, 8, 135, 136, 137, 1000]);
        let ctx_len = *p.pick(&[0usize, 1, 32, 255]);
        let msg = p.bytes(msg_len);
        let ctx = p.bytes(ctx_len);
        for mode in MODES {
            let rnd = p.bytes(32);
            let sig = sk.sign_rng(&mut SimRng::healthy(rnd.clone()), &msg, &ctx, mode).map_err(|e| format!("sign: {e}"))?;
            a.bytes(mode.name(), &sig);
            let sig_rt = sk_rt.sign_rng(&mut SimRng::healthy(rnd), &msg, &ctx, mode).map_err(|e| format!("sign(rt): {e}"))?;
            a.bytes("sig_rt", &sig_rt);
            a.flag("v_gen", pk.verify(&msg, &sig, &ctx, mode));
            a.flag("v_rt", pk_rt.verify(&msg, &sig, &ctx, mode));
            a.flag("v_der", pk_der.verify(&msg, &sig, &ctx, mode));
            // bit-rotted artefacts: the decision is part of the history
            let mut bad = sig.clone();
            let bit = p.usize_below(bad.len() * 8);
            bad[bit / 8] ^= 1 << (bit % 8);
            a.flag("v_rot_sig", pk.verify(&msg, &bad, &ctx, mode));
            let mut m2 = msg.clone();
            m2.push(0);
            a.flag("v_other_msg", pk.verify(&m2, &sig, &ctx, mode));
            for other in MODES {
                if other != mode {
                    a.flag("v_other_mode", pk.verify(&msg, &sig, &ctx, other));
                }
            }
        }
        // error paths
        let long_ctx = vec![7u8; 256 + (i as usize % 3)];
        a.flag("sign_long_ctx_is_err", sk.sign_rng(&mut SimRng::healthy(vec![0; 32]), &msg, &long_ctx, MODES[(i % 4) as usize]).is_err());
        let sig = sk.sign_rng(&mut SimRng::healthy(vec![0; 32]), &msg, &[], MODES[0]).map_err(|e| format!("sign: {e}"))?;
        a.flag("verify_long_ctx", pk.verify(&msg, &sig, &long_ctx, MODES[0]));
        let mut bad_sk = skb.clone();
        let (s0, s1) = info.s_region();
        let pos = s0 + p.usize_below(s1 - s0);
        bad_sk[pos] = 0xFF;
        a.flag("rotted_sk_is_err", set.sk_from_bytes(&bad_sk).is_err());
        let mut rot_pk = pkb.clone();
        let pos = p.usize_below(rot_pk.len());
        rot_pk[pos] ^= 0x40;
        match set.pk_from_bytes(&rot_pk) {
            Ok(k) => {
                a.bytes("rotted_pk_rt", &k.to_bytes());
                a.flag("v_rot_pk", k.verify(&msg, &sig, &[], MODES[0]));
            }
            Err(_) => a.flag("rotted_pk_is_err", true),
        }
        // a failing RNG device must be reported by every entry point in every configuration
        for mode in MODES {
            let mut failing = SimRng::new(vec![0; 64], vec![(0, crate::simrng::RngFault::ErrPartial(5))]);
            a.flag("rng_failure_is_err", sk.sign_rng(&mut failing, &msg, &ctx, mode).is_err());
        }
        let mut failing = SimRng::new(vec![0; 64], vec![(0, crate::simrng::RngFault::ErrFull)]);
        a.flag("keygen_rng_failure_is_err", set.keygen_rng(&mut failing).is_err());
    }
    // a private key whose write was lost (the store reads back 0x00): if it loads, it must sign the same bytes in
    // every configuration - this key drives the rejection loop through hundreds of rounds and every norm test
    if let Ok(lost) = set.sk_from_bytes(&vec![0u8; info.sk_len]) {
        for i in 0..(iters / 4).max(2) {
            let mode = MODES[(i % 4) as usize];
            let mut rnd = [0u8; 32];
            rnd[..8].copy_from_slice(&(i ^ seed).to_le_bytes());
            match lost.sign_rng(&mut SimRng::healthy(rnd.to_vec()), &i.to_le_bytes(), &[], mode) {
                Ok(sig) => a.bytes("lost_key_sig", &sig),
                Err(_) => a.flag("lost_key_sign_is_err", true),
            }
        }
    } else {
        a.flag("lost_key_is_rejected", true);
    }
    // bulk signing with one key: rare per-signature events (a candidate exactly on a rejection bound,
    // a coefficient on a rounding boundary) differ between configurations only once in 10^2..10^4 signatures
    let bulk = iters * 250;
    let mut p = Prng::for_run(seed, &format!("digest-bulk-{}", info.name), 0);
    let (pk, sk) = set.keygen_seed(&p.array32());
    for i in 0..bulk {
        let msg = i.to_le_bytes();
        let mut rnd = [0u8; 32];
        rnd[..8].copy_from_slice(&(i ^ seed).to_le_bytes());
        let mode = MODES[(i % 4) as usize];
        let sig = sk.sign_rng(&mut SimRng::healthy(rnd.to_vec()), &msg, &[], mode).map_err(|e| format!("bulk sign: {e}"))?;
        a.bytes("bulk", &sig);
        if i % 16 == 0 {
            a.flag("bulk_v", pk.verify(&msg, &sig, &[], mode));
        }
    }
    Ok(a.hex())
}

fn os_part(set: &dyn DynSet, seed: u64, iters: u64) -> Result<Option<(String, u64)>, String> {
    let info = set.info();
    let mut a = Acc::new();
    for i in 0..iters {
        let mut p = Prng::for_run(seed, &format!("digest-os-{}", info.name), i);
        let mut ks = KState::new(p.bytes(64), vec![KResp::Short(5), KResp::Errno(kernel::EINTR)]);
        let r = kernel::with_kernel(&mut ks, || set.keygen_os());
        let Some(r) = r else { return Ok(None) };
        let (pk, sk) = r.map_err(|e| format!("try_keygen: {e}"))?;
        a.bytes("pk_os", &pk.to_bytes());
        a.bytes("sk_os", &sk.to_bytes());
        let msg = p.bytes(33);
        for mode in MODES {
            let mut ks = KState::new(p.bytes(64), vec![]);
            let sig = kernel::with_kernel(&mut ks, || sk.sign_os(&msg, &[1, 2, 3], mode)).ok_or("sign_os missing")?.map_err(|e| format!("try_sign: {e}"))?;
            a.bytes("sig_os", &sig);
            a.flag("v_os", pk.verify(&msg, &sig, &[1, 2, 3], mode));
        }
        let mut ks = KState::new(p.bytes(64), vec![KResp::Errno(kernel::EIO)]);
        a.flag("os_failure_is_err", kernel::with_kernel(&mut ks, || sk.sign_os(&msg, &[], MODES[0])).map(|r| r.is_err()).unwrap_or(false));
    }
    Ok(Some(a.hex()))
}

fn dudect_part(set: &dyn DynSet, seed: u64, iters: u64) -> Result<Option<(String, u64)>, String> {
    let info = set.info();
    let mut a = Acc::new();
    for i in 0..iters {
        let mut p = Prng::for_run(seed, &format!("digest-dudect-{}", info.name), i);
        let mut rng = SimRng::healthy(p.bytes(64));
        let Some(r) = set.dudect(&mut rng, &[0, 1, 2, 3, 4, 5, 6, 7]) else { return Ok(None) };
        a.bytes("dudect", &r.map_err(|e| format!("dudect: {e}"))?);
    }
    Ok(Some(a.hex()))
}

pub fn run(ctx: &Ctx) -> i32 {
    let iters = match ctx.tier {
        Tier::Quick => ctx.scaled(12),
        Tier::Thorough => ctx.scaled(60),
    };
    let all = sets::sets();
    let outs = run_indexed(all.len() * 3, ctx.workers, |i| {
        let set = all[i / 3];
        let r = catch(|| match i % 3 {
            0 => core_part(set, ctx.seed, iters).map(Some),
            1 => os_part(set, ctx.seed, iters),
            _ => dudect_part(set, ctx.seed, iters),
        });
        (set.info().name, ["core", "os", "dudect"][i % 3], r)
    });
    let mut bad = false;
    for (name, part, r) in outs {
        match r {
            Ok(Ok(Some((hex, n)))) => println!("DIGEST {name} {part} {hex} {n}"),
            Ok(Ok(None)) => println!("ABSENT {name} {part}"),
            Ok(Err(e)) => {
                println!("FAILED {name} {part} {e}");
                bad = true;
            }
            Err(p) => {
                println!("FAILED {name} {part} panic: {p}");
                bad = true;
            }
        }
    }
    // a failing fault-free operation is reported to the driver, which decides what it means
    if bad {
        3
    } else {
        0
    }
}
