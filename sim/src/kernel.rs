//! SimKernel: the operating-system entropy seam.
//!
//! `getrandom 0.2.x` reaches the kernel through the libc symbol `syscall`. This binary defines
//! that symbol itself; everything except an *armed* `SYS_getrandom` is forwarded with a raw
//! `syscall` instruction. x86-64 Linux only.

use std::cell::Cell;
use std::ptr;

pub const SYS_GETRANDOM: i64 = 318;

#[derive(Clone, Copy, Debug, PartialEq, Eq)]
pub enum KResp {
    /// fill the whole request
    Full,
    /// fill only k bytes (k >= 1; clipped to the request)
    Short(usize),
    /// return -1 with this errno
    Errno(i32),
    /// contract breach: return 0 for a non-empty request
    RetZero,
    /// contract breach: return more than was asked for
    RetOver,
    /// contract breach: return a negative value other than -1
    RetNeg,
    /// contract breach: return -1 with errno 0
    ErrnoZero,
}

pub const EINTR: i32 = 4;
pub const EIO: i32 = 5;
pub const EAGAIN: i32 = 11;
pub const EFAULT: i32 = 14;
pub const EINVAL: i32 = 22;
pub const ENOSYS: i32 = 38;
pub const EPERM: i32 = 1;

impl KResp {
    pub fn name(&self) -> String {
        match self {
            KResp::Full => "full".into(),
            KResp::Short(k) => format!("short({k})"),
            KResp::Errno(e) => format!("errno({e})"),
            KResp::RetZero => "ret_zero".into(),
            KResp::RetOver => "ret_over".into(),
            KResp::RetNeg => "ret_neg".into(),
            KResp::ErrnoZero => "errno_zero".into(),
        }
    }
    pub fn class(&self) -> &'static str {
        match self {
            KResp::Full => "full",
            KResp::Short(_) => "short",
            KResp::Errno(EINTR) => "eintr",
            KResp::Errno(_) => "errno",
            KResp::RetZero => "ret_zero",
            KResp::RetOver => "ret_over",
            KResp::RetNeg => "ret_neg",
            KResp::ErrnoZero => "errno_zero",
        }
    }
    /// Must the request that receives this response end in an error?
    pub fn is_failure(&self) -> bool {
        !matches!(self, KResp::Full | KResp::Short(_) | KResp::Errno(EINTR))
    }
    pub fn to_json(&self) -> serde_json::Value {
        match self {
            KResp::Short(k) => serde_json::json!({"kind":"short","n":k}),
            KResp::Errno(e) => serde_json::json!({"kind":"errno","n":e}),
            other => serde_json::json!({"kind": other.class()}),
        }
    }
    pub fn from_json(v: &serde_json::Value) -> Option<Self> {
        Some(match v["kind"].as_str()? {
            "full" => KResp::Full,
            "short" => KResp::Short(v["n"].as_u64()? as usize),
            "errno" => KResp::Errno(v["n"].as_i64()? as i32),
            "ret_zero" => KResp::RetZero,
            "ret_over" => KResp::RetOver,
            "ret_neg" => KResp::RetNeg,
            "errno_zero" => KResp::ErrnoZero,
            _ => return None,
        })
    }
}

#[derive(Clone, Debug)]
pub struct KEvent {
    pub len: usize,
    pub resp: KResp,
}

pub struct KState {
    pub stream: Vec<u8>,
    pub pos: usize,
    /// responses for successive getrandom calls; `Full` once exhausted
    pub plan: Vec<KResp>,
    pub events: Vec<KEvent>,
    /// bytes written by calls that returned a positive count, in order
    pub delivered: Vec<u8>,
    pub exhausted: bool,
    pub probes: usize,
}

impl KState {
    pub fn new(stream: Vec<u8>, plan: Vec<KResp>) -> Self {
        KState { stream, pos: 0, plan, events: Vec::new(), delivered: Vec::new(), exhausted: false, probes: 0 }
    }
    pub fn any_failed(&self) -> bool { self.events.iter().any(|e| e.resp.is_failure()) }
    pub fn calls(&self) -> usize { self.events.len() }
}

thread_local! {
    static ARMED: Cell<*mut KState> = const { Cell::new(ptr::null_mut()) };
}

struct Disarm;
impl Drop for Disarm {
    fn drop(&mut self) { ARMED.with(|a| a.set(ptr::null_mut())); }
}

/// Run `f` with this thread's getrandom(2) served by `st`.
pub fn with_kernel<R>(st: &mut KState, f: impl FnOnce() -> R) -> R {
    ARMED.with(|a| a.set(st as *mut KState));
    let _g = Disarm;
    f()
}

extern "C" {
    fn __errno_location() -> *mut i32;
}

unsafe fn set_errno(e: i32) { *__errno_location() = e; }

unsafe fn serve(st: &mut KState, buf: *mut u8, len: usize) -> i64 {
    if len == 0 {
        st.probes += 1;
        return 0; // availability probe: the syscall exists
    }
    let idx = st.events.len();
    let resp = st.plan.get(idx).copied().unwrap_or(KResp::Full);
    st.events.push(KEvent { len, resp });
    let mut write = |st: &mut KState, n: usize| {
        for i in 0..n {
            let b = if st.pos < st.stream.len() { st.stream[st.pos] } else { st.exhausted = true; 0 };
            st.pos += 1;
            *buf.add(i) = b;
            st.delivered.push(b);
        }
    };
    match resp {
        KResp::Full => { write(st, len); len as i64 }
        KResp::Short(k) => { let n = k.max(1).min(len); write(st, n); n as i64 }
        KResp::Errno(e) => { set_errno(e); -1 }
        KResp::RetZero => 0,
        KResp::RetOver => {
            // the kernel claims to have written more than asked; the bytes it did write are not
            // counted as delivered because the request must fail
            for i in 0..len { *buf.add(i) = 0xA5; }
            len as i64 + 1
        }
        KResp::RetNeg => { set_errno(EIO); -2 }
        KResp::ErrnoZero => { set_errno(0); -1 }
    }
}

#[cfg(not(miri))]
#[inline(always)]
unsafe fn raw_syscall(num: i64, a1: usize, a2: usize, a3: usize, a4: usize, a5: usize, a6: usize) -> i64 {
    let ret: i64;
    core::arch::asm!(
        "syscall",
        inlateout("rax") num => ret,
        in("rdi") a1, in("rsi") a2, in("rdx") a3, in("r10") a4, in("r8") a5, in("r9") a6,
        lateout("rcx") _, lateout("r11") _,
        options(nostack)
    );
    ret
}

/// Replacement for libc's `syscall(2)` wrapper, bound at link time for the whole process.
#[cfg(not(miri))]
#[no_mangle]
pub unsafe extern "C" fn syscall(num: i64, a1: usize, a2: usize, a3: usize, a4: usize, a5: usize, a6: usize) -> i64 {
    if num == SYS_GETRANDOM {
        let p = ARMED.try_with(|a| a.get()).unwrap_or(ptr::null_mut());
        if !p.is_null() {
            return serve(&mut *p, a1 as *mut u8, a2);
        }
    }
    let ret = raw_syscall(num, a1, a2, a3, a4, a5, a6);
    if (-4095..0).contains(&ret) {
        set_errno((-ret) as i32);
        return -1;
    }
    ret
}

