#![allow(dead_code)]
//! fipsim — deterministic simulation with fault injection for fips204.
//!
//! usage: fipsim <mode> [--tier quick|thorough] [--seed N] [--flavour NAME] [--evidence FILE]
//!               [--replay-dir DIR] [--known FILE] [--workers N] [--scale PCT]
//!        fipsim replay <file>
//! exit: 0 property held on everything explored; 1 violation (VIOLATION line printed);
//!       2 harness trouble (never a verdict).

mod arena;
mod c05;
mod c08;
mod c10;
mod c12;
mod c16;
mod common;
mod digest;
mod kernel;
mod prng;
mod sets;
mod simrng;
mod world;

use common::*;
use std::collections::BTreeMap;
use std::path::PathBuf;
use std::time::Instant;

fn main() {
    let args: Vec<String> = std::env::args().collect();
    if args.len() < 2 {
        eprintln!("usage: fipsim <c12|c05|c10|c16|digest|replay|selftest> [options]");
        std::process::exit(EXIT_HARNESS);
    }
    install_panic_hook();
    let mode = args[1].clone();
    let mut tier = match std::env::var("VERIF_TIER").as_deref() {
        Ok("thorough") => Tier::Thorough,
        _ => Tier::Quick,
    };
    let mut seed: u64 = std::env::var("VERIF_SEED").ok().and_then(|s| s.trim().parse::<i64>().ok()).map(|v| v as u64).unwrap_or(204);
    let mut flavour = "release".to_string();
    let mut evidence = None;
    let mut replay_dir = PathBuf::from("/verif/replays");
    let mut known = None;
    let mut workers = std::env::var("VERIF_WORKERS")
        .ok()
        .and_then(|s| s.parse().ok())
        .unwrap_or_else(|| std::thread::available_parallelism().map(|n| n.get()).unwrap_or(4));
    let mut scale = 100u64;
    let mut extra = BTreeMap::new();
    let mut positional = Vec::new();
    let mut i = 2;
    while i < args.len() {
        let a = args[i].as_str();
        let mut val = || {
            i += 1;
            args.get(i).cloned().unwrap_or_else(|| harness_error("missing option value"))
        };
        match a {
            "--tier" => {
                tier = match val().as_str() {
                    "quick" => Tier::Quick,
                    "thorough" => Tier::Thorough,
                    _ => harness_error("bad --tier"),
                }
            }
            "--seed" => seed = val().parse::<i64>().map(|v| v as u64).unwrap_or_else(|_| harness_error("bad --seed")),
            "--flavour" => flavour = val(),
            "--evidence" => evidence = Some(PathBuf::from(val())),
            "--replay-dir" => replay_dir = PathBuf::from(val()),
            "--known" => known = Some(PathBuf::from(val())),
            "--workers" => workers = val().parse().unwrap_or_else(|_| harness_error("bad --workers")),
            "--scale" => scale = val().parse().unwrap_or_else(|_| harness_error("bad --scale")),
            s if s.starts_with("--") => {
                let k = s.trim_start_matches("--").to_string();
                let v = val();
                extra.insert(k, v);
            }
            _ => positional.push(args[i].clone()),
        }
        i += 1;
    }
    let prop = match mode.as_str() {
        "c12" => "C12",
        "c05" => "C05",
        "c10" => "C10",
        "c08" => "C08",
        "c16" => "C16",
        "digest" => "C17",
        "world" => "WORLD",
        _ => "-",
    };
    let prop = if mode == "world" { extra.get("prop").cloned().unwrap_or_else(|| "-".to_string()) } else { prop.to_string() };
    let ctx = Ctx {
        prop,
        tier,
        seed,
        flavour,
        evidence,
        replay_dir,
        known,
        workers,
        start: Instant::now(),
        scale,
        extra,
    };
    #[cfg(all(feature = "default-rng", not(miri)))]
    warm_up();
    println!("fipsim mode={} tier={} seed={} flavour={} workers={}", mode, ctx.tier.name(), ctx.seed, ctx.flavour, ctx.workers);
    let code = match mode.as_str() {
        "c12" => c12::run(&ctx),
        "c05" => c05::run(&ctx),
        "c10" => c10::run(&ctx),
        "c08" => c08::run(&ctx),
        "c16" => c16::run(&ctx),
        "digest" => digest::run(&ctx),
        "world" => world::run(&ctx),
        "replay" => replay(&ctx, positional.first().map(String::as_str).unwrap_or_else(|| harness_error("replay needs a file"))),
        _ => harness_error("unknown mode"),
    };
    println!("fipsim done mode={} exit={} wall_s={:.1}", mode, code, ctx.wall());
    std::process::exit(code);
}

/// Unarmed warm-up through the real library and the real kernel, so that getrandom's cached
/// availability flag can never be influenced by an injected fault. That the pass-through works is
/// proven on the seam itself (two real getrandom(2) draws through the shim differ), not on any
/// behaviour of the library under test.
#[cfg(all(feature = "default-rng", not(miri)))]
fn warm_up() {
    let set = sets::sets()[0];
    let _ = catch(|| set.keygen_os().map(|r| r.is_ok()));
    let mut a = [0u8; 32];
    let mut b = [0u8; 32];
    // SAFETY: plain getrandom(2) into valid buffers through the unarmed shim
    let ra = unsafe { kernel::syscall(kernel::SYS_GETRANDOM, a.as_mut_ptr() as usize, 32, 0, 0, 0, 0) };
    let rb = unsafe { kernel::syscall(kernel::SYS_GETRANDOM, b.as_mut_ptr() as usize, 32, 0, 0, 0, 0) };
    if ra != 32 || rb != 32 || a == b {
        harness_error("kernel seam: unarmed pass-through to the real getrandom(2) does not work");
    }
}

fn replay(ctx: &Ctx, file: &str) -> i32 {
    let txt = std::fs::read_to_string(file).unwrap_or_else(|e| harness_error(&format!("cannot read {file}: {e}")));
    let body: serde_json::Value = serde_json::from_str(&txt).unwrap_or_else(|e| harness_error(&format!("replay file does not parse: {e}")));
    let prop = body["property"].as_str().unwrap_or("");
    let want = body["invariant"].as_str().unwrap_or("");
    let _ = ctx;
    let got = match prop {
        "C12" => c12::replay_body(&body),
        "C05" => c05::replay_body(&body),
        "C10" => c10::replay_body(&body),
        "C16" => c16::replay_body(&body),
        "C01" | "C06" | "C07" | "C09" | "C11" | "C13" => world::replay_body(&body),
        "C08" => c08::replay_body(&body),
        _ => harness_error("replay: unknown property in file"),
    };
    match got {
        Err(e) => harness_error(&format!("replay: {e}")),
        Ok(None) => {
            println!("REPLAY property={prop} file={file}: no violation reproduced (expected {want})");
            0
        }
        Ok(Some((inv, obs, exp))) => {
            println!("VIOLATION property={prop} replay={file}");
            println!("  invariant={inv} observed={obs:?} expected={exp:?}");
            if inv != want {
                println!("  note: file recorded invariant {want}");
            }
            1
        }
    }
}
