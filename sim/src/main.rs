#![allow(dead_code)]
//! fipsim — deterministic simulation with fault injection for fips204.
//!
//! usage: fipsim <mode> [--tier quick|thorough] [--seed N] [--flavour NAME] [--evidence FILE]
//!               [--replay-dir DIR] [--known FILE] [--workers N] [--scale PCT]
//!        fipsim replay <file>
//! exit: 0 property held on everything explored; 1 violation (VIOLATION line printed);
//!       2 harness trouble (never a verdict).

mod arena;
mod c05;
mod c08;
mod c10;
mod c12;
mod c16;
mod common;
mod digest;
mod kernel;
mod prng;
mod sets;
mod simrng;
mod world;

use common::*;
use std::collections::BTreeMap;
use std::path::PathBuf;
use std::time::Instant;

fn main() {
    let args: Vec<String> = std::env::args().collect();
    if args.len() < 2 {
        eprintln!("usage: fipsim <c12|c05|c10|c16|digest|replay|selftest> [options]");
        std::process::exit(EXIT_HARNESS);
    }
    install_panic_hook();
    let mode = args[1].clone();
    let mut tier = match std::env::var("VERIF_TIER").as_deref() {
        Ok("thorough") => Tier::Thorough,
        _ => Tier::Quick,
    };
    let mut seed: u64 = std::env::var("VERIF_SEED").ok().and_then(|s| s.trim().parse::<i64>().ok()).map(|v| v as u64).unwrap_or(204);
    let mut flavour = "release".to_string();
    let mut evidence = None;
    let mut replay_dir = PathBuf::from("/verif/replays");
    let mut known = None;
    let mut workers = std::env::var("VERIF_WORKERS")
        .ok()
        .and_then(|s| s.parse().ok())
        .unwrap_or_else(|| std::thread::available_parallelism().map(|n| n.get()).unwrap_or(4));
    let mut scale = 100u64;
    let mut extra = BTreeMap::new();
    let mut positional = Vec::new();
    let mut i = 2;
    while i < args.len() {
        let a = args[i].as_str();
        let mut val = || {
            i += 1;
            args.get(i).cloned().unwrap_or_else(|| harness_error("missing option value"))
        };
        match a {
            "--tier" => {
                tier = match val().as_str() {
                    "quick" => Tier::Quick,
                    "thorough" => Tier::Thorough,
                    _ => harness_error("bad --tier"),
                }
            }
            "--seed" => seed = val().parse::<i64>().map(|v| v as u64).unwrap_or_else(|_| harness_error("bad --seed")),
            "--flavour" => flavour = val(),
            "--evidence" => evidence = Some(PathBuf::from(val())),
            "--replay-dir" => replay_dir = PathBuf::from(val()),
            "--known" => known = Some(PathBuf::from(val())),
            "--workers" => workers = val().parse().unwrap_or_else(|_| harness_error("bad --workers")),
            "--scale" => scale = val().parse().unwrap_or_else(|_| harness_error("bad --scale")),
            s if s.starts_with("--") => {
                let k = s.trim_start_matches("--").to_string();
                let v = val();
                extra.insert(k, v);
            }
            _ => positional.push(args[i].clone()),
        }
        i += 1;
    }
    let prop = match mode.as_str() {
        "c12" => "C12",
        "c05" => "C05",
        "c10" => "C10",
        "c08" => "C08",
        "c16" => "C16",
        "digest" => "C17",
        "world" => "WORLD",
        _ => "-",
    };
    let prop = if mode == "world" { extra.get("prop").cloned().unwrap_or_else(|| "-".to_string()) } else { prop.to_string() };
    let ctx = Ctx {
        prop,
        tier,
        seed,
        flavour,
        evidence,
        replay_dir,
        known,
        workers,
        start: Instant::now(),
        scale,
        extra,
    };
    #[cfg(all(feature = "default-rng", not(miri)))]
    warm_up();
    println!("fipsim mode={} tier={} seed={} flavour={} workers={}", mode, ctx.tier.name(), ctx.seed, ctx.flavour, ctx.workers);
    start_watchdog(&mode, &ctx);
    let code = match mode.as_str() {
        "c12" => c12::run(&ctx),
        "c05" => c05::run(&ctx),
        "c10" => c10::run(&ctx),
        "c08" => c08::run(&ctx),
        "c16" => c16::run(&ctx),
        "digest" => digest::run(&ctx),
        "world" => world::run(&ctx),
        "replay" => replay(&ctx, positional.first().map(String::as_str).unwrap_or_else(|| harness_error("replay needs a file"))),
        _ => harness_error("unknown mode"),
    };
    println!("fipsim done mode={} exit={} wall_s={:.1}", mode, code, ctx.wall());
    std::process::exit(code);
}

/// Unarmed warm-up through the real library and the real kernel, so that getrandom's cached
/// availability flag can never be influenced by an injected fault. That the pass-through works is
/// proven on the seam itself (two real getrandom(2) draws through the shim differ), not on any
/// behaviour of the library under test.
#[cfg(all(feature = "default-rng", not(miri)))]
fn warm_up() {
    let set = sets::sets()[0];
    let _ = catch(|| set.keygen_os().map(|r| r.is_ok()));
    let mut a = [0u8; 32];
    let mut b = [0u8; 32];
    // SAFETY: plain getrandom(2) into valid buffers through the unarmed shim
    let ra = unsafe { kernel::syscall(kernel::SYS_GETRANDOM, a.as_mut_ptr() as usize, 32, 0, 0, 0, 0) };
    let rb = unsafe { kernel::syscall(kernel::SYS_GETRANDOM, b.as_mut_ptr() as usize, 32, 0, 0, 0, 0) };
    if ra != 32 || rb != 32 || a == b {
        harness_error("kernel seam: unarmed pass-through to the real getrandom(2) does not work");
    }
}

/// Per-operation deadline in seconds (honest operations take milliseconds; the slowest, a 64 MiB message, under 2 s).
const OP_DEADLINE_S: u64 = 120;

/// Bounded liveness. (1) An operation published through `common::watch` that does not return within the
/// deadline: while C13 is judged that is a violation of "every call returns a value or an error" and is
/// reported as such, the history up to the stuck operation being the replay file; otherwise harness trouble
/// (exit 2). (2) The whole run must end within a generous budget, so that a broken tree can make a check fail
/// but cannot hang it.
fn start_watchdog(mode: &str, ctx: &Ctx) {
    // under Miri one lifecycle takes minutes of real time: deadlines mean nothing there
    if cfg!(miri) {
        return;
    }
    let mode = mode.to_string();
    let replay_dir = ctx.replay_dir.clone();
    let (seed, flavour) = (ctx.seed, ctx.flavour.clone());
    let budget_s: u64 = match ctx.tier {
        Tier::Quick => 45 * 60,
        Tier::Thorough => 6 * 3600,
    };
    let start = Instant::now();
    std::thread::spawn(move || loop {
        std::thread::sleep(std::time::Duration::from_secs(2));
        if let Some((what, body, at_op, age)) = watch::overdue(OP_DEADLINE_S) {
            if watch::judging_returns() && !body.is_empty() {
                let observed = format!("{what} has not returned after {age} s");
                if let Some(file) = watch::REPLAY_FILE.lock().unwrap().clone() {
                    println!("VIOLATION property=C13 replay={file}");
                    println!("  invariant=does-not-return observed={observed:?}");
                    std::process::exit(1);
                }
                let _ = std::fs::create_dir_all(&replay_dir);
                let path = replay_dir.join(format!("C13-{flavour}-{seed}-stuck.json"));
                let mut v: serde_json::Value = serde_json::from_str(&body).unwrap_or(serde_json::Value::Null);
                if let Some(ops) = v["ops"].as_array_mut() {
                    ops.truncate(at_op + 1);
                }
                v["property"] = serde_json::json!("C13");
                v["invariant"] = serde_json::json!("does-not-return");
                v["finding_key"] = serde_json::json!("does-not-return");
                v["flavour"] = serde_json::json!(flavour);
                v["seed"] = serde_json::json!(seed);
                v["at_op"] = serde_json::json!(at_op);
                v["observed"] = serde_json::json!(observed);
                v["expected"] = serde_json::json!("every call returns a value or an error (honest operations take milliseconds)");
                let _ = std::fs::write(&path, serde_json::to_string_pretty(&v).unwrap_or_default());
                println!("VIOLATION property=C13 replay={}", path.display());
                println!("  invariant=does-not-return observed={observed:?}");
                std::process::exit(1);
            }
            eprintln!("HARNESS-ERROR: {what} has not returned after {age} s (mode {mode}): a library call hangs on this tree");
            std::process::exit(EXIT_HARNESS);
        }
        if start.elapsed().as_secs() > budget_s {
            eprintln!("HARNESS-ERROR: mode {mode} exceeded its time budget of {budget_s} s");
            std::process::exit(EXIT_HARNESS);
        }
    });
}

fn replay(ctx: &Ctx, file: &str) -> i32 {
    let txt = std::fs::read_to_string(file).unwrap_or_else(|e| harness_error(&format!("cannot read {file}: {e}")));
    let body: serde_json::Value = serde_json::from_str(&txt).unwrap_or_else(|e| harness_error(&format!("replay file does not parse: {e}")));
    let prop = body["property"].as_str().unwrap_or("");
    let want = body["invariant"].as_str().unwrap_or("");
    let _ = ctx;
    if prop == "C13" {
        watch::set_judging_returns(true);
        *watch::REPLAY_FILE.lock().unwrap() = Some(file.to_string());
    }
    let got = match prop {
        "C12" => c12::replay_body(&body),
        "C05" => c05::replay_body(&body),
        "C10" => c10::replay_body(&body),
        "C16" => c16::replay_body(&body),
        "C01" | "C06" | "C07" | "C09" | "C11" | "C13" => world::replay_body(&body),
        "C08" => c08::replay_body(&body),
        _ => harness_error("replay: unknown property in file"),
    };
    match got {
        Err(e) => harness_error(&format!("replay: {e}")),
        Ok(None) => {
            println!("REPLAY property={prop} file={file}: no violation reproduced (expected {want})");
            0
        }
        Ok(Some((inv, obs, exp))) => {
            println!("VIOLATION property={prop} replay={file}");
            println!("  invariant={inv} observed={obs:?} expected={exp:?}");
            if inv != want {
                println!("  note: file recorded invariant {want}");
            }
            1
        }
    }
}
