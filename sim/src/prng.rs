//! The one source of choice in the simulator: SplitMix64 -> xoshiro256**.
//! Own code so that replay never depends on an external crate's algorithm.

#[derive(Clone)]
pub struct Prng {
    s: [u64; 4],
}

pub fn splitmix(x: &mut u64) -> u64 {
    *x = x.wrapping_add(0x9E37_79B9_7F4A_7C15);
    let mut z = *x;
    z = (z ^ (z >> 30)).wrapping_mul(0xBF58_476D_1CE4_E5B9);
    z = (z ^ (z >> 27)).wrapping_mul(0x94D0_49BB_1331_11EB);
    z ^ (z >> 31)
}

pub fn fnv(s: &str) -> u64 {
    let mut h = 0xcbf2_9ce4_8422_2325u64;
    for b in s.bytes() {
        h ^= u64::from(b);
        h = h.wrapping_mul(0x0100_0000_01b3);
    }
    h
}

impl Prng {
    pub fn from_u64(seed: u64) -> Self {
        let mut x = seed;
        let s = [splitmix(&mut x), splitmix(&mut x), splitmix(&mut x), splitmix(&mut x)];
        Prng { s }
    }

    /// Stream for run `run` of stream label `label` under master seed `seed`.
    pub fn for_run(seed: u64, label: &str, run: u64) -> Self {
        Self::from_u64(seed ^ fnv(label) ^ run.wrapping_mul(0x9E37_79B9_7F4A_7C15))
    }

    pub fn next_u64(&mut self) -> u64 {
        let r = self.s[1].wrapping_mul(5).rotate_left(7).wrapping_mul(9);
        let t = self.s[1] << 17;
        self.s[2] ^= self.s[0];
        self.s[3] ^= self.s[1];
        self.s[1] ^= self.s[2];
        self.s[0] ^= self.s[3];
        self.s[2] ^= t;
        self.s[3] = self.s[3].rotate_left(45);
        r
    }

    /// Uniform in 0..n (n > 0); modulo bias is irrelevant here.
    pub fn below(&mut self, n: u64) -> u64 { self.next_u64() % n }

    pub fn usize_below(&mut self, n: usize) -> usize { (self.next_u64() % (n as u64)) as usize }

    pub fn chance(&mut self, num: u64, den: u64) -> bool { self.below(den) < num }

    pub fn pick<'a, T>(&mut self, xs: &'a [T]) -> &'a T { &xs[self.usize_below(xs.len())] }

    pub fn fill(&mut self, buf: &mut [u8]) {
        for chunk in buf.chunks_mut(8) {
            let v = self.next_u64().to_le_bytes();
            chunk.copy_from_slice(&v[..chunk.len()]);
        }
    }

    pub fn bytes(&mut self, n: usize) -> Vec<u8> {
        let mut v = vec![0u8; n];
        self.fill(&mut v);
        v
    }

    pub fn array32(&mut self) -> [u8; 32] {
        let mut v = [0u8; 32];
        self.fill(&mut v);
        v
    }
}
