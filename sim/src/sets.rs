//! Uniform dynamic API over the enabled parameter sets. Nothing of fips204 is modelled here:
//! every method is a direct call into the real crate.

use crate::arena::{drop_and_inspect, window_of, DropObs};
use crate::simrng::SimRng;
use fips204::Ph;

#[derive(Clone, Copy, PartialEq, Eq, Debug, Hash, PartialOrd, Ord)]
pub enum Mode {
    Pure,
    Sha256,
    Sha512,
    Shake128,
}

pub const MODES: [Mode; 4] = [Mode::Pure, Mode::Sha256, Mode::Sha512, Mode::Shake128];

impl Mode {
    pub fn name(&self) -> &'static str {
        match self {
            Mode::Pure => "pure",
            Mode::Sha256 => "SHA256",
            Mode::Sha512 => "SHA512",
            Mode::Shake128 => "SHAKE128",
        }
    }
    pub fn from_name(s: &str) -> Option<Mode> { MODES.iter().copied().find(|m| m.name() == s) }
    fn ph(&self) -> Option<Ph> {
        match self {
            Mode::Pure => None,
            Mode::Sha256 => Some(Ph::SHA256),
            Mode::Sha512 => Some(Ph::SHA512),
            Mode::Shake128 => Some(Ph::SHAKE128),
        }
    }
}

#[derive(Debug)]
pub struct SetInfo {
    pub name: &'static str,
    pub sk_len: usize,
    pub pk_len: usize,
    pub sig_len: usize,
    pub k: usize,
    pub l: usize,
    pub eta: u32,
    pub omega: usize,
    pub ctilde_len: usize,
    /// bits per z coefficient (18 or 20)
    pub z_bits: usize,
}

impl SetInfo {
    /// bits per s1/s2 field in the serialised private key
    pub fn eta_bits(&self) -> usize { if self.eta == 2 { 3 } else { 4 } }
    pub fn s_region(&self) -> (usize, usize) { (128, 128 + (self.k + self.l) * 32 * self.eta_bits()) }
    pub fn hint_start(&self) -> usize { self.ctilde_len + self.l * 32 * self.z_bits }
}

pub trait DynPk {
    fn verify(&self, msg: &[u8], sig: &[u8], ctx: &[u8], mode: Mode) -> bool;
    fn to_bytes(&self) -> Vec<u8>;
    fn dup(&self) -> Box<dyn DynPk>;
    /// the deprecated internal verification interface (message taken as already formatted)
    fn verify_internal(&self, m_prime: &[u8], sig: &[u8], ctx: &[u8]) -> bool;
    fn dup_via_clone_from(&self) -> Box<dyn DynPk>;
}

pub trait DynSk {
    fn sign_rng(&self, rng: &mut SimRng, msg: &[u8], ctx: &[u8], mode: Mode) -> Result<Vec<u8>, &'static str>;
    /// OS-RNG convenience function; None when `default-rng` is not compiled in.
    fn sign_os(&self, msg: &[u8], ctx: &[u8], mode: Mode) -> Option<Result<Vec<u8>, &'static str>>;
    fn to_bytes(&self) -> Vec<u8>;
    fn public(&self) -> Box<dyn DynPk>;
    fn dup(&self) -> Box<dyn DynSk>;
    /// the deprecated internal interface: signs the already formatted message M' as is
    fn sign_internal(&self, m_prime: &[u8], rnd: [u8; 32]) -> Result<Vec<u8>, &'static str>;
    /// the same with a context argument (which the internal interface only length-checks)
    fn sign_internal_ctx(&self, m_prime: &[u8], ctx: &[u8], rnd: [u8; 32]) -> Result<Vec<u8>, &'static str>;
    /// a replica obtained with Clone::clone_from into an existing key object of another key pair
    fn dup_via_clone_from(&self) -> Box<dyn DynSk>;
}

pub type KeyPair = (Box<dyn DynPk>, Box<dyn DynSk>);

// ---- C16 case description (lifecycle of one object) ----

#[derive(Clone, Copy, Debug, PartialEq, Eq)]
pub enum KeyTy {
    Sk,
    Pk,
}

#[derive(Clone, Copy, Debug, PartialEq, Eq)]
pub enum Prov {
    KeygenSeed,
    KeygenRng,
    KeygenOs,
    FromBytes,
    CloneOf,
    CloneOfFromBytes,
    /// public key only: get_public_key() of a generated private key
    Derived,
    /// public key only: get_public_key() of a round-tripped private key
    DerivedFromRoundTripped,
    /// deserialised from a stored artefact whose first 32 bytes were never written (read back as zero)
    FromBytesZeroPrefix,
    /// deserialised from a stored artefact that was lost entirely (reads back as all 0x00)
    FromBytesLostZero,
    /// public key only: lost write that reads back as all 0xFF
    FromBytesLostFF,
    /// deserialised from a stored artefact with seeded bit rot outside the range-checked fields
    FromBytesBitRot,
    /// deserialised from a stored artefact in which one aligned block (32, 64 or 128 bytes) was never
    /// written and reads back as zero; `stream[1]` selects size and position
    FromBytesZeroBlock,
    /// deserialised from a stored artefact whose write onto a fresh (zero-filled) medium was torn after
    /// `k` bytes: the first k bytes are new, the rest reads back as zero; k = `stream[2..4]` (little endian)
    FromBytesTornOverZero,
}

impl Prov {
    pub fn faulted(&self) -> bool {
        matches!(self, Prov::FromBytesZeroPrefix | Prov::FromBytesLostZero | Prov::FromBytesLostFF | Prov::FromBytesBitRot | Prov::FromBytesZeroBlock | Prov::FromBytesTornOverZero)
    }
}

/// Apply the storage fault of a faulted provenance to honest serialised bytes.
pub fn storage_fault(prov: Prov, bytes: &mut [u8], rot_lo: usize, rot_hi: usize, stream: &[u8]) {
    match prov {
        Prov::FromBytesZeroPrefix => bytes[..32].iter_mut().for_each(|b| *b = 0),
        Prov::FromBytesLostZero => bytes.iter_mut().for_each(|b| *b = 0),
        Prov::FromBytesLostFF => bytes.iter_mut().for_each(|b| *b = 0xFF),
        Prov::FromBytesZeroBlock => {
            let sel = stream.get(1).copied().unwrap_or(0) as usize;
            let size = [32usize, 64, 128][sel % 3];
            let off = (size * ((sel / 3) % 8)).min(bytes.len() - size);
            bytes[off..off + size].iter_mut().for_each(|b| *b = 0);
        }
        Prov::FromBytesTornOverZero => {
            let k = u16::from_le_bytes([stream.get(2).copied().unwrap_or(1), stream.get(3).copied().unwrap_or(0)]) as usize;
            let k = k.clamp(1, bytes.len());
            bytes[k..].iter_mut().for_each(|b| *b = 0);
        }
        Prov::FromBytesBitRot => {
            for (i, ch) in stream.chunks(4).take(6).enumerate() {
                let r = u32::from_le_bytes([ch[0], ch[1 % ch.len()], ch[2 % ch.len()], ch[3 % ch.len()]]) as usize;
                let pos = rot_lo + r % (rot_hi - rot_lo);
                bytes[pos] ^= 1 << (i % 8);
            }
        }
        _ => {}
    }
}

#[derive(Clone, Copy, Debug, PartialEq, Eq)]
pub enum Use {
    Sign(Mode),
    /// a signing attempt during which the RNG device fails
    SignRngFails,
    Verify(Mode),
    VerifyBad,
    ToBytes,
    GetPublic,
}

#[derive(Clone, Copy, Debug, PartialEq, Eq)]
pub enum Container {
    Bare,
    Tuple,
    OptionSome,
    ResultOk,
    Array2,
}

#[derive(Clone, Debug)]
pub struct C16Case {
    pub ty: KeyTy,
    pub prov: Prov,
    pub uses: Vec<Use>,
    pub container: Container,
    pub seed: [u8; 32],
    pub stream: Vec<u8>,
    pub msg: Vec<u8>,
    pub ctx: Vec<u8>,
}

impl C16Case {
    pub fn label(&self, set: &str) -> String {
        let uses: Vec<String> = self.uses.iter().map(|u| format!("{u:?}")).collect();
        format!("{set}/{:?}/{:?}/[{}]/{:?}", self.ty, self.prov, uses.join(","), self.container)
    }
}

pub trait DynSet: Sync {
    fn info(&self) -> &'static SetInfo;
    fn keygen_rng(&self, rng: &mut SimRng) -> Result<KeyPair, &'static str>;
    fn keygen_seed(&self, xi: &[u8; 32]) -> KeyPair;
    fn keygen_os(&self) -> Option<Result<KeyPair, &'static str>>;
    fn sk_from_bytes(&self, b: &[u8]) -> Result<Box<dyn DynSk>, &'static str>;
    fn pk_from_bytes(&self, b: &[u8]) -> Result<Box<dyn DynPk>, &'static str>;
    /// constant-time test entry point; None when `dudect` is not compiled in.
    fn dudect(&self, rng: &mut SimRng, msg: &[u8]) -> Option<Result<Vec<u8>, &'static str>>;
    /// Err(text) = the case is not available in this build (e.g. OS RNG without default-rng)
    fn c16_case(&self, c: &C16Case) -> Result<Vec<DropObs>, String>;
    fn sizes(&self) -> (usize, usize);
    /// sigDecode followed by sigEncode through the verif-hooks wrappers:
    /// None = hooks not compiled in; Some(Err) = decoding rejected; Some(Ok(bytes)) = re-encoding
    fn sig_recode(&self, sig: &[u8]) -> Option<Result<Vec<u8>, &'static str>>;
}

macro_rules! set_impl {
    ($modname:ident, $fmod:ident, $feat:literal, $name:literal, $k:expr, $l:expr, $eta:expr, $omega:expr, $ct:expr, $zb:expr) => {
        #[cfg(feature = $feat)]
        pub mod $modname {
            use super::*;
            use fips204::traits::{KeyGen, SerDes, Signer, Verifier};
            use fips204::$fmod::{self as m, PrivateKey, PublicKey, KG};

            pub static INFO: SetInfo = SetInfo {
                name: $name,
                sk_len: m::SK_LEN,
                pk_len: m::PK_LEN,
                sig_len: m::SIG_LEN,
                k: $k,
                l: $l,
                eta: $eta,
                omega: $omega,
                ctilde_len: $ct,
                z_bits: $zb,
            };

            pub struct Set;
            struct Sk(PrivateKey);
            struct Pk(PublicKey);

            fn verify_raw(pk: &PublicKey, msg: &[u8], sig: &[u8], ctx: &[u8], mode: Mode) -> bool {
                let sig: [u8; m::SIG_LEN] = sig.try_into().expect("harness: signature length");
                match mode.ph() {
                    None => pk.verify(msg, &sig, ctx),
                    Some(ph) => pk.hash_verify(msg, &sig, ctx, &ph),
                }
            }

            fn sign_raw(
                sk: &PrivateKey, rng: &mut SimRng, msg: &[u8], ctx: &[u8], mode: Mode,
            ) -> Result<[u8; m::SIG_LEN], &'static str> {
                match mode.ph() {
                    None => sk.try_sign_with_rng(rng, msg, ctx),
                    Some(ph) => sk.try_hash_sign_with_rng(rng, msg, ctx, &ph),
                }
            }

            impl DynPk for Pk {
                fn verify(&self, msg: &[u8], sig: &[u8], ctx: &[u8], mode: Mode) -> bool {
                    verify_raw(&self.0, msg, sig, ctx, mode)
                }
                fn to_bytes(&self) -> Vec<u8> { self.0.clone().into_bytes().to_vec() }
                fn dup(&self) -> Box<dyn DynPk> { Box::new(Pk(self.0.clone())) }
                #[allow(deprecated)]
                fn verify_internal(&self, m_prime: &[u8], sig: &[u8], ctx: &[u8]) -> bool {
                    let sig: [u8; m::SIG_LEN] = sig.try_into().expect("harness: signature length");
                    m::_internal_verify(&self.0, m_prime, &sig, ctx)
                }
                fn dup_via_clone_from(&self) -> Box<dyn DynPk> {
                    let mut other = KG::keygen_from_seed(&[0xC1u8; 32]).0;
                    other.clone_from(&self.0);
                    Box::new(Pk(other))
                }
            }

            impl DynSk for Sk {
                fn sign_rng(
                    &self, rng: &mut SimRng, msg: &[u8], ctx: &[u8], mode: Mode,
                ) -> Result<Vec<u8>, &'static str> {
                    sign_raw(&self.0, rng, msg, ctx, mode).map(|s| s.to_vec())
                }
                #[allow(unused_variables)]
                fn sign_os(&self, msg: &[u8], ctx: &[u8], mode: Mode) -> Option<Result<Vec<u8>, &'static str>> {
                    #[cfg(feature = "default-rng")]
                    {
                        Some(
                            match mode.ph() {
                                None => self.0.try_sign(msg, ctx),
                                Some(ph) => self.0.try_hash_sign(msg, ctx, &ph),
                            }
                            .map(|s| s.to_vec()),
                        )
                    }
                    #[cfg(not(feature = "default-rng"))]
                    {
                        None
                    }
                }
                fn to_bytes(&self) -> Vec<u8> { self.0.clone().into_bytes().to_vec() }
                fn public(&self) -> Box<dyn DynPk> { Box::new(Pk(self.0.get_public_key())) }
                fn dup(&self) -> Box<dyn DynSk> { Box::new(Sk(self.0.clone())) }
                #[allow(deprecated)]
                fn sign_internal(&self, m_prime: &[u8], rnd: [u8; 32]) -> Result<Vec<u8>, &'static str> {
                    m::_internal_sign(&self.0, m_prime, &[], rnd).map(|s| s.to_vec())
                }
                #[allow(deprecated)]
                fn sign_internal_ctx(&self, m_prime: &[u8], ctx: &[u8], rnd: [u8; 32]) -> Result<Vec<u8>, &'static str> {
                    m::_internal_sign(&self.0, m_prime, ctx, rnd).map(|s| s.to_vec())
                }
                fn dup_via_clone_from(&self) -> Box<dyn DynSk> {
                    let mut other = KG::keygen_from_seed(&[0xC1u8; 32]).1;
                    other.clone_from(&self.0);
                    Box::new(Sk(other))
                }
            }

            fn boxed(p: (PublicKey, PrivateKey)) -> KeyPair { (Box::new(Pk(p.0)), Box::new(Sk(p.1))) }

            fn os_keygen() -> Option<Result<(PublicKey, PrivateKey), &'static str>> {
                #[cfg(feature = "default-rng")]
                {
                    Some(m::try_keygen())
                }
                #[cfg(not(feature = "default-rng"))]
                {
                    None
                }
            }

            impl Set {
                fn make_pair(&self, c: &C16Case, prov: Prov) -> Result<(PublicKey, PrivateKey), String> {
                    match prov {
                        Prov::KeygenSeed => Ok(KG::keygen_from_seed(&c.seed)),
                        Prov::KeygenRng => {
                            let mut rng = SimRng::healthy(c.stream.clone());
                            m::try_keygen_with_rng(&mut rng).map_err(|e| format!("harness: healthy keygen failed: {e}"))
                        }
                        Prov::KeygenOs => {
                            let mut ks = crate::kernel::KState::new(c.stream.clone(), vec![]);
                            match crate::kernel::with_kernel(&mut ks, os_keygen) {
                                None => Err("unavailable: default-rng off".into()),
                                Some(r) => r.map_err(|e| format!("harness: healthy OS keygen failed: {e}")),
                            }
                        }
                        _ => Err("harness: not a pair provenance".into()),
                    }
                }

                fn make_sk(&self, c: &C16Case) -> Result<PrivateKey, String> {
                    match c.prov {
                        Prov::KeygenSeed | Prov::KeygenRng | Prov::KeygenOs => Ok(self.make_pair(c, c.prov)?.1),
                        Prov::FromBytes => {
                            let sk = KG::keygen_from_seed(&c.seed).1;
                            PrivateKey::try_from_bytes(sk.into_bytes()).map_err(|e| format!("harness: round trip failed: {e}"))
                        }
                        Prov::CloneOf => Ok(KG::keygen_from_seed(&c.seed).1.clone()),
                        Prov::CloneOfFromBytes => {
                            let sk = KG::keygen_from_seed(&c.seed).1;
                            let sk2 = PrivateKey::try_from_bytes(sk.into_bytes())
                                .map_err(|e| format!("harness: round trip failed: {e}"))?;
                            Ok(sk2.clone())
                        }
                        Prov::FromBytesZeroPrefix | Prov::FromBytesLostZero | Prov::FromBytesBitRot | Prov::FromBytesZeroBlock | Prov::FromBytesTornOverZero => {
                            let mut b = KG::keygen_from_seed(&c.seed).1.into_bytes();
                            // bit rot only where every value is valid: rho, K, tr and the t0 region
                            let (s0, s1) = INFO.s_region();
                            let in_t0 = c.stream.first().map(|x| x % 2 == 0).unwrap_or(true);
                            let (lo, hi) = if in_t0 { (s1, m::SK_LEN) } else { (0, s0) };
                            storage_fault(c.prov, &mut b, lo, hi, &c.stream);
                            PrivateKey::try_from_bytes(b).map_err(|_| "unavailable: faulted private key is (rightly) rejected".to_string())
                        }
                        _ => Err("harness: not a private-key provenance".into()),
                    }
                }

                fn make_pk(&self, c: &C16Case) -> Result<PublicKey, String> {
                    match c.prov {
                        Prov::KeygenSeed | Prov::KeygenRng | Prov::KeygenOs => Ok(self.make_pair(c, c.prov)?.0),
                        Prov::FromBytes => {
                            let pk = KG::keygen_from_seed(&c.seed).0;
                            PublicKey::try_from_bytes(pk.into_bytes()).map_err(|e| format!("harness: round trip failed: {e}"))
                        }
                        Prov::CloneOf => Ok(KG::keygen_from_seed(&c.seed).0.clone()),
                        Prov::CloneOfFromBytes => {
                            let pk = KG::keygen_from_seed(&c.seed).0;
                            let pk2 = PublicKey::try_from_bytes(pk.into_bytes())
                                .map_err(|e| format!("harness: round trip failed: {e}"))?;
                            Ok(pk2.clone())
                        }
                        Prov::Derived => Ok(KG::keygen_from_seed(&c.seed).1.get_public_key()),
                        Prov::DerivedFromRoundTripped => {
                            let sk = KG::keygen_from_seed(&c.seed).1;
                            let sk2 = PrivateKey::try_from_bytes(sk.into_bytes())
                                .map_err(|e| format!("harness: round trip failed: {e}"))?;
                            Ok(sk2.get_public_key())
                        }
                        Prov::FromBytesZeroPrefix | Prov::FromBytesLostZero | Prov::FromBytesLostFF | Prov::FromBytesBitRot | Prov::FromBytesZeroBlock | Prov::FromBytesTornOverZero => {
                            let mut b = KG::keygen_from_seed(&c.seed).0.into_bytes();
                            storage_fault(c.prov, &mut b, 0, m::PK_LEN, &c.stream);
                            PublicKey::try_from_bytes(b).map_err(|_| "unavailable: faulted public key is rejected".to_string())
                        }
                    }
                }
            }

            impl DynSet for Set {
                fn info(&self) -> &'static SetInfo { &INFO }
                fn keygen_rng(&self, rng: &mut SimRng) -> Result<KeyPair, &'static str> {
                    m::try_keygen_with_rng(rng).map(boxed)
                }
                fn keygen_seed(&self, xi: &[u8; 32]) -> KeyPair { boxed(KG::keygen_from_seed(xi)) }
                fn keygen_os(&self) -> Option<Result<KeyPair, &'static str>> { os_keygen().map(|r| r.map(boxed)) }
                fn sk_from_bytes(&self, b: &[u8]) -> Result<Box<dyn DynSk>, &'static str> {
                    let a: [u8; m::SK_LEN] = b.try_into().expect("harness: sk length");
                    PrivateKey::try_from_bytes(a).map(|k| Box::new(Sk(k)) as Box<dyn DynSk>)
                }
                fn pk_from_bytes(&self, b: &[u8]) -> Result<Box<dyn DynPk>, &'static str> {
                    let a: [u8; m::PK_LEN] = b.try_into().expect("harness: pk length");
                    PublicKey::try_from_bytes(a).map(|k| Box::new(Pk(k)) as Box<dyn DynPk>)
                }
                #[allow(unused_variables, deprecated)]
                fn dudect(&self, rng: &mut SimRng, msg: &[u8]) -> Option<Result<Vec<u8>, &'static str>> {
                    #[cfg(feature = "dudect")]
                    {
                        Some(m::dudect_keygen_sign_with_rng(rng, msg).map(|s| s.to_vec()))
                    }
                    #[cfg(not(feature = "dudect"))]
                    {
                        None
                    }
                }
                fn sizes(&self) -> (usize, usize) {
                    (core::mem::size_of::<PrivateKey>(), core::mem::size_of::<PublicKey>())
                }

                #[allow(unused_variables)]
                fn sig_recode(&self, sig: &[u8]) -> Option<Result<Vec<u8>, &'static str>> {
                    #[cfg(feature = "hooks")]
                    {
                        use fips204::verif_hooks as vh;
                        let a: [u8; m::SIG_LEN] = sig.try_into().expect("harness: signature length");
                        let gamma1: i32 = 1 << ($zb - 1);
                        Some(vh::sig_decode::<$k, $l, $ct, { m::SIG_LEN }>(gamma1, $omega, &a).map(|(c, z, h)| {
                            vh::sig_encode::<$k, $l, $ct, { m::SIG_LEN }>(gamma1, $omega, &c, &z, &h).to_vec()
                        }))
                    }
                    #[cfg(not(feature = "hooks"))]
                    {
                        None
                    }
                }

                fn c16_case(&self, c: &C16Case) -> Result<Vec<DropObs>, String> {
                    let label = c.label($name);
                    // a signature to verify against, made by the matching honest key
                    let sig_for = |sk: &PrivateKey, mode: Mode| -> Result<[u8; m::SIG_LEN], String> {
                        let mut rng = SimRng::healthy(c.stream.clone());
                        sign_raw(sk, &mut rng, &c.msg, &c.ctx, mode).map_err(|e| format!("harness: healthy sign failed: {e}"))
                    };
                    match c.ty {
                        KeyTy::Sk => {
                            let sk = self.make_sk(c)?;
                            for u in &c.uses {
                                match u {
                                    Use::Sign(mode) => {
                                        let _ = sig_for(&sk, *mode)?;
                                    }
                                    Use::SignRngFails => {
                                        let mut rng = SimRng::new(
                                            c.stream.clone(),
                                            vec![(0, crate::simrng::RngFault::ErrPartial(9))],
                                        );
                                        let _ = sign_raw(&sk, &mut rng, &c.msg, &c.ctx, Mode::Pure);
                                    }
                                    Use::ToBytes => {
                                        let _ = sk.clone().into_bytes();
                                    }
                                    Use::GetPublic => {
                                        let _ = sk.get_public_key();
                                    }
                                    _ => return Err("harness: not a private-key use".into()),
                                }
                            }
                            let needle = sk.clone().into_bytes()[..32].to_vec();
                            Ok(match c.container {
                                Container::Bare => drop_and_inspect(&label, sk, |k| vec![window_of(k, k, "sk")], &needle),
                                Container::Tuple => {
                                    let pk = sk.get_public_key();
                                    drop_and_inspect(
                                        &label,
                                        (pk, sk),
                                        |t| vec![window_of(t, &t.0, "pk"), window_of(t, &t.1, "sk")],
                                        &needle,
                                    )
                                }
                                Container::OptionSome => drop_and_inspect(
                                    &label,
                                    Some(sk),
                                    |o| vec![window_of(o, o.as_ref().unwrap(), "sk")],
                                    &needle,
                                ),
                                Container::ResultOk => {
                                    let pk = sk.get_public_key();
                                    let r: Result<(PublicKey, PrivateKey), &'static str> = Ok((pk, sk));
                                    drop_and_inspect(
                                        &label,
                                        r,
                                        |r| {
                                            let t = r.as_ref().unwrap();
                                            vec![window_of(r, &t.0, "pk"), window_of(r, &t.1, "sk")]
                                        },
                                        &needle,
                                    )
                                }
                                Container::Array2 => drop_and_inspect(
                                    &label,
                                    [sk.clone(), sk],
                                    |a| vec![window_of(a, &a[0], "sk"), window_of(a, &a[1], "sk")],
                                    &needle,
                                ),
                            })
                        }
                        KeyTy::Pk => {
                            let pk = self.make_pk(c)?;
                            // the private key able to sign for this public key
                            let signer: Option<PrivateKey> = match c.prov {
                                Prov::KeygenRng | Prov::KeygenOs => Some(self.make_pair(c, c.prov)?.1),
                                _ => Some(KG::keygen_from_seed(&c.seed).1),
                            };
                            for u in &c.uses {
                                match u {
                                    Use::Verify(mode) => {
                                        let sig = sig_for(signer.as_ref().unwrap(), *mode)?;
                                        if !verify_raw(&pk, &c.msg, &sig, &c.ctx, *mode) && !c.prov.faulted() {
                                            return Err("precondition: honest signature did not verify".into());
                                        }
                                    }
                                    Use::VerifyBad => {
                                        let mut sig = sig_for(signer.as_ref().unwrap(), Mode::Pure)?;
                                        sig[7] ^= 0x10;
                                        let _ = verify_raw(&pk, &c.msg, &sig, &c.ctx, Mode::Pure);
                                    }
                                    Use::ToBytes => {
                                        let _ = pk.clone().into_bytes();
                                    }
                                    _ => return Err("harness: not a public-key use".into()),
                                }
                            }
                            let needle = pk.clone().into_bytes()[..32].to_vec();
                            Ok(match c.container {
                                Container::Bare => drop_and_inspect(&label, pk, |k| vec![window_of(k, k, "pk")], &needle),
                                Container::Tuple => {
                                    let sk = signer.unwrap();
                                    drop_and_inspect(
                                        &label,
                                        (pk, sk),
                                        |t| vec![window_of(t, &t.0, "pk"), window_of(t, &t.1, "sk")],
                                        &needle,
                                    )
                                }
                                Container::OptionSome => drop_and_inspect(
                                    &label,
                                    Some(pk),
                                    |o| vec![window_of(o, o.as_ref().unwrap(), "pk")],
                                    &needle,
                                ),
                                Container::ResultOk => {
                                    let sk = signer.unwrap();
                                    let r: Result<(PublicKey, PrivateKey), &'static str> = Ok((pk, sk));
                                    drop_and_inspect(
                                        &label,
                                        r,
                                        |r| {
                                            let t = r.as_ref().unwrap();
                                            vec![window_of(r, &t.0, "pk"), window_of(r, &t.1, "sk")]
                                        },
                                        &needle,
                                    )
                                }
                                Container::Array2 => drop_and_inspect(
                                    &label,
                                    [pk.clone(), pk],
                                    |a| vec![window_of(a, &a[0], "pk"), window_of(a, &a[1], "pk")],
                                    &needle,
                                ),
                            })
                        }
                    }
                }
            }
        }
    };
}

set_impl!(s44, ml_dsa_44, "ml-dsa-44", "ml-dsa-44", 4, 4, 2, 80, 32, 18);
set_impl!(s65, ml_dsa_65, "ml-dsa-65", "ml-dsa-65", 6, 5, 4, 55, 48, 20);
set_impl!(s87, ml_dsa_87, "ml-dsa-87", "ml-dsa-87", 8, 7, 2, 75, 64, 20);

pub fn sets() -> Vec<&'static dyn DynSet> {
    #[allow(unused_mut)]
    let mut v: Vec<&'static dyn DynSet> = Vec::new();
    #[cfg(feature = "ml-dsa-44")]
    v.push(&s44::Set);
    #[cfg(feature = "ml-dsa-65")]
    v.push(&s65::Set);
    #[cfg(feature = "ml-dsa-87")]
    v.push(&s87::Set);
    v
}

pub fn set_by_name(name: &str) -> Option<&'static dyn DynSet> { sets().into_iter().find(|s| s.info().name == name) }
