//! SimRng: the caller-supplied RNG device, owned by the simulator.
//! Every method call is an event; `try_fill_bytes` consults the fault plan.

use core::num::NonZeroU32;
use fips204::{CryptoRng, RngCore, RngError};

#[derive(Clone, Copy, Debug, PartialEq, Eq)]
pub enum RngFault {
    /// Error reported, destination untouched.
    ErrClean,
    /// First n stream bytes written, then error.
    ErrPartial(usize),
    /// All bytes written, then error.
    ErrFull,
}

impl RngFault {
    pub fn name(&self) -> String {
        match self {
            RngFault::ErrClean => "err_clean".into(),
            RngFault::ErrPartial(n) => format!("err_partial({n})"),
            RngFault::ErrFull => "err_full".into(),
        }
    }
    pub fn class(&self) -> &'static str {
        match self {
            RngFault::ErrClean => "err_clean",
            RngFault::ErrPartial(_) => "err_partial",
            RngFault::ErrFull => "err_full",
        }
    }
    pub fn to_json(&self) -> serde_json::Value {
        match self {
            RngFault::ErrClean => serde_json::json!({"kind":"err_clean"}),
            RngFault::ErrPartial(n) => serde_json::json!({"kind":"err_partial","n":n}),
            RngFault::ErrFull => serde_json::json!({"kind":"err_full"}),
        }
    }
    pub fn from_json(v: &serde_json::Value) -> Option<Self> {
        match v["kind"].as_str()? {
            "err_clean" => Some(RngFault::ErrClean),
            "err_partial" => Some(RngFault::ErrPartial(v["n"].as_u64()? as usize)),
            "err_full" => Some(RngFault::ErrFull),
            _ => None,
        }
    }
}

#[derive(Clone, Debug, PartialEq, Eq)]
pub struct RngEvent {
    pub method: &'static str,
    pub len: usize,
    pub ok: bool,
}

pub struct SimRng {
    pub stream: Vec<u8>,
    pub pos: usize,
    /// (request index, fault)
    pub plan: Vec<(usize, RngFault)>,
    pub events: Vec<RngEvent>,
    /// bytes handed over by successful requests, in order
    pub delivered: Vec<u8>,
    /// the stream ran dry: harness error, never a property verdict
    pub exhausted: bool,
    /// code carried by the errors this device reports: 0 = a custom code, otherwise an OS errno
    /// (a device that wraps the OS reports EINTR / EAGAIN / EIO like that)
    pub err_code: u32,
    req: usize,
}

pub const INFALLIBLE_PANIC: &str = "SimRng: infallible RNG method called on a failing device";

impl SimRng {
    pub fn new(stream: Vec<u8>, plan: Vec<(usize, RngFault)>) -> Self {
        SimRng { stream, pos: 0, plan, events: Vec::new(), delivered: Vec::new(), exhausted: false, err_code: 0, req: 0 }
    }

    pub fn healthy(stream: Vec<u8>) -> Self { Self::new(stream, Vec::new()) }

    pub fn requests(&self) -> usize { self.events.iter().filter(|e| e.method == "try_fill_bytes").count() }

    pub fn any_failed(&self) -> bool { self.events.iter().any(|e| !e.ok) }

    pub fn infallible_used(&self) -> Option<&'static str> {
        self.events.iter().find(|e| e.method != "try_fill_bytes").map(|e| e.method)
    }

    fn take(&mut self, dest: &mut [u8]) {
        for d in dest.iter_mut() {
            if self.pos < self.stream.len() {
                *d = self.stream[self.pos];
            } else {
                self.exhausted = true;
                *d = 0;
            }
            self.pos += 1;
        }
    }

    fn err(&self) -> RngError {
        let code = if self.err_code == 0 { RngError::CUSTOM_START + 204 } else { self.err_code };
        RngError::from(NonZeroU32::new(code).unwrap())
    }
}

impl RngCore for SimRng {
    fn next_u32(&mut self) -> u32 {
        self.events.push(RngEvent { method: "next_u32", len: 4, ok: false });
        panic!("{}", INFALLIBLE_PANIC);
    }

    fn next_u64(&mut self) -> u64 {
        self.events.push(RngEvent { method: "next_u64", len: 8, ok: false });
        panic!("{}", INFALLIBLE_PANIC);
    }

    fn fill_bytes(&mut self, dest: &mut [u8]) {
        self.events.push(RngEvent { method: "fill_bytes", len: dest.len(), ok: false });
        panic!("{}", INFALLIBLE_PANIC);
    }

    fn try_fill_bytes(&mut self, dest: &mut [u8]) -> Result<(), RngError> {
        let idx = self.req;
        self.req += 1;
        let fault = self.plan.iter().find(|(i, _)| *i == idx).map(|(_, f)| *f);
        match fault {
            None => {
                self.take(dest);
                self.delivered.extend_from_slice(dest);
                self.events.push(RngEvent { method: "try_fill_bytes", len: dest.len(), ok: true });
                Ok(())
            }
            Some(f) => {
                let n = match f {
                    RngFault::ErrClean => 0,
                    RngFault::ErrPartial(n) => n.min(dest.len()),
                    RngFault::ErrFull => dest.len(),
                };
                let (head, _) = dest.split_at_mut(n);
                self.take(head);
                self.events.push(RngEvent { method: "try_fill_bytes", len: dest.len(), ok: false });
                Err(self.err())
            }
        }
    }
}

impl CryptoRng for SimRng {}
