//! World engine — originator, store, channel and remote party in one process.
//!
//! One run is one seeded *history*: key objects are created, persisted to a store, reloaded after
//! a simulated restart (all in-memory objects of a party dropped, only the stored bytes survive),
//! derived, cloned; messages are signed, transmitted and verified by every replica of the public
//! key that exists at that moment. The store and the channel inject the canonical faults (bit rot,
//! stuck-at bytes, lost and torn writes). A never-restarted reference pair (generated once from the
//! same seed) is the executable reference model: every honest replica must refine it.
//!
//! The same histories are judged under one oracle set per property:
//!   C01  an intact tuple signed by an honest private-key replica verifies under every honest
//!        public-key replica, whatever the provenance of either;
//!   C09  what is loaded from the store serialises back to the very bytes it was loaded from
//!        (faulted or not; public keys always load); an honest reloaded private key signs exactly
//!        like the reference for the same randomness; an honest reloaded public key decides exactly
//!        like the reference on every delivered tuple;
//!   C11  a public key derived from an honest private-key replica (generated or reloaded)
//!        serialises to the reference bytes and decides like the reference on every delivered
//!        tuple (valid and faulted);
//!   C06  an intact tuple is rejected when the channel misroutes it (another mode's or pre-hash
//!        function's endpoint), re-frames it (context || message split elsewhere) or presents the
//!        formatted pre-hash input to the pure endpoint;
//!   C07  over-long contexts are refused by signer and verifier, including replays whose length
//!        aliases the original modulo 256, and every context of 0..255 bytes is accepted;
//!   C13  no operation panics — in particular none on artefacts loaded from a faulted store or
//!        delivered through a faulted channel (checked flavour: self-checks and overflow checks on).

use crate::common::*;
use crate::prng::Prng;
use crate::sets::{self, DynPk, DynSet, DynSk, Mode, MODES};
use crate::simrng::SimRng;
use serde_json::{json, Value};
use std::collections::{BTreeMap, BTreeSet};

#[derive(Clone, Debug, PartialEq)]
pub enum Fault {
    BitFlip(usize),
    Stuck(usize, u8),
    Lost(u8),
    /// first n bytes of this artefact, the rest from another honest artefact of the same type
    Torn(usize),
    MultiBit(Vec<usize>),
    /// a block (or, with len 0, the whole artefact) reads back as a memory-test pattern instead of its
    /// data: kind 0 = 0xAA, 1 = 0x55, 2 = address-in-data (each byte is the low byte of its own offset,
    /// as an LBA-stamped or never-initialised sector returns), 3 = a ramp starting at 0 in the block,
    /// 4 + b = the constant byte b (a stuck data bus; generalises the all-0x00 / all-0xFF lost write)
    Pattern { kind: u16, off: usize, len: usize },
    /// two independent faults on one artefact, applied in order
    Both(Box<Fault>, Box<Fault>),
}

impl Fault {
    fn class(&self) -> &'static str {
        match self {
            Fault::BitFlip(_) => "bitflip",
            Fault::Stuck(..) => "stuck_byte",
            Fault::Lost(_) => "lost_write",
            Fault::Torn(_) => "torn_write",
            Fault::MultiBit(_) => "multi_bit_rot",
            Fault::Pattern { kind: 2, .. } | Fault::Pattern { kind: 3, .. } => "address_pattern",
            Fault::Pattern { kind, .. } if *kind >= 4 => "constant_byte_fill",
            Fault::Pattern { .. } => "checkerboard_pattern",
            Fault::Both(..) => "double_fault",
        }
    }
    fn to_json(&self) -> Value {
        match self {
            Fault::BitFlip(b) => json!({"kind":"bitflip","bit":b}),
            Fault::Stuck(p, v) => json!({"kind":"stuck_byte","byte":p,"value":v}),
            Fault::Lost(v) => json!({"kind":"lost_write","value":v}),
            Fault::Torn(n) => json!({"kind":"torn_write","n":n}),
            Fault::MultiBit(b) => json!({"kind":"multi_bit_rot","bits":b}),
            Fault::Pattern { kind, off, len } => json!({"kind":"pattern","pattern":kind,"offset":off,"len":len}),
            Fault::Both(a, b) => json!({"kind":"double_fault","first":a.to_json(),"second":b.to_json()}),
        }
    }
    fn from_json(v: &Value) -> Option<Fault> {
        Some(match v["kind"].as_str()? {
            "bitflip" => Fault::BitFlip(v["bit"].as_u64()? as usize),
            "stuck_byte" => Fault::Stuck(v["byte"].as_u64()? as usize, v["value"].as_u64()? as u8),
            "lost_write" => Fault::Lost(v["value"].as_u64()? as u8),
            "torn_write" => Fault::Torn(v["n"].as_u64()? as usize),
            "pattern" => Fault::Pattern { kind: v["pattern"].as_u64()? as u16, off: v["offset"].as_u64()? as usize, len: v["len"].as_u64()? as usize },
            "double_fault" => Fault::Both(Box::new(Fault::from_json(&v["first"])?), Box::new(Fault::from_json(&v["second"])?)),
            "multi_bit_rot" => Fault::MultiBit(v["bits"].as_array()?.iter().map(|b| b.as_u64().map(|x| x as usize)).collect::<Option<Vec<_>>>()?),
            _ => return None,
        })
    }
    /// Apply to `x` (positions are reduced modulo the artefact size so that shrinking stays well-formed).
    fn apply(&self, x: &mut Vec<u8>, other: &[u8]) {
        let n = x.len();
        if n == 0 {
            return;
        }
        match self {
            Fault::BitFlip(b) => x[(b / 8) % n] ^= 1 << (b % 8),
            Fault::Stuck(p, v) => x[p % n] = *v,
            Fault::Lost(v) => x.iter_mut().for_each(|b| *b = *v),
            Fault::Torn(k) => {
                let k = k % n;
                if other.len() == n {
                    x[k..].copy_from_slice(&other[k..]);
                }
            }
            Fault::MultiBit(bits) => {
                for b in bits {
                    x[(b / 8) % n] ^= 1 << (b % 8);
                }
            }
            Fault::Both(a, b) => {
                a.apply(x, other);
                b.apply(x, other);
            }
            Fault::Pattern { kind, off, len } => {
                let (lo, hi) = if *len == 0 { (0, n) } else { (off % n, ((off % n) + len).min(n)) };
                for i in lo..hi {
                    x[i] = match *kind {
                        0 => 0xAA,
                        1 => 0x55,
                        2 => i as u8,
                        3 => (i - lo) as u8,
                        k => (k - 4) as u8,
                    };
                }
            }
        }
    }
}

#[derive(Clone, Debug, PartialEq)]
pub enum Op {
    SkReload { src: usize, fault: Option<Fault> },
    PkReload { src: usize, fault: Option<Fault> },
    PkDerive { src: usize },
    SkClone { src: usize },
    PkClone { src: usize },
    /// a party restarts: every in-memory replica is dropped, one private and one public key are
    /// reloaded from what the store holds (written fault-free just before)
    Restart { sk: usize, pk: usize },
    /// `via_os`: through the OS-RNG convenience function, the kernel seam delivering `rnd`
    Sign { sk: usize, msg: Vec<u8>, ctx: Vec<u8>, mode: Mode, rnd: [u8; 32], via_os: bool },
    /// transmit tuple `t`; `art`: 0 = signature, 1 = message, 2 = context
    Deliver { t: usize, fault: Option<(u8, Fault)> },
    SkToBytes { src: usize },
    PkToBytes { src: usize },
    /// misrouting: the intact tuple reaches the verifier endpoint of another mode / pre-hash function
    DeliverAs { t: usize, mode: Mode },
    /// framing fault: the concatenation ctx || msg arrives split at another boundary
    DeliverReframed { t: usize, split: usize },
    /// cross-protocol delivery: the formatted pre-hash input OID || PH(M) of a HashML-DSA tuple
    /// reaches the pure ML-DSA endpoint as if it were the message
    /// `shift`: the context/message boundary of the presented input is moved by that many bytes into the
    /// formatted part; `full`: the whole formatted input dom || len || ctx || ... is presented as the
    /// message under an empty context (what a verifier with an unframed fallback would accept)
    DeliverCross { t: usize, shift: u8, full: bool },
    /// replay of an intact tuple with an over-long context: kind 0 appends 256 zero bytes (same length
    /// modulo 256), kind 1 appends 512 bytes, kind 2 replaces the context by 256 bytes, kind 3 by 257
    DeliverLongCtx { t: usize, kind: u8 },
    /// the key owner signs, through the deprecated internal interface, the formatted input
    /// dom || (len mod 256) || ctx || [OID || PH(M)] || [M] for a context of `ctx_len` > 255 bytes
    /// (a "signature made over the wrapped length byte"); it is delivered at once with that context
    SignWrapped { sk: usize, msg: Vec<u8>, ctx_len: usize, mode: Mode, rnd: [u8; 32] },
    /// a context of 2^32 + `extra` bytes (all zero, never touched unless the library reads it) is handed
    /// to the signer, to the internal signer and, with the tuple signed last, to the first verifier replica:
    /// the width at which a length held in 32 bits wraps, as 256 and 65536 are for 8 and 16 bits
    HugeCtx { sk: usize, msg: Vec<u8>, extra: u8, mode: Mode, rnd: [u8; 32] },
}

impl Op {
    fn name(&self) -> &'static str {
        match self {
            Op::SkReload { .. } => "sk_reload",
            Op::PkReload { .. } => "pk_reload",
            Op::PkDerive { .. } => "pk_derive",
            Op::SkClone { .. } => "sk_clone",
            Op::PkClone { .. } => "pk_clone",
            Op::Restart { .. } => "restart",
            Op::Sign { .. } => "sign",
            Op::Deliver { .. } => "deliver",
            Op::SkToBytes { .. } => "sk_to_bytes",
            Op::PkToBytes { .. } => "pk_to_bytes",
            Op::DeliverAs { .. } => "deliver_as_other_mode",
            Op::DeliverReframed { .. } => "deliver_reframed",
            Op::DeliverCross { .. } => "deliver_cross_protocol",
            Op::DeliverLongCtx { .. } => "deliver_overlong_context",
            Op::SignWrapped { .. } => "sign_over_wrapped_length_byte",
            Op::HugeCtx { .. } => "context_of_4gib",
        }
    }
    fn to_json(&self) -> Value {
        let f = |f: &Option<Fault>| f.as_ref().map(|f| f.to_json()).unwrap_or(Value::Null);
        match self {
            Op::SkReload { src, fault } => json!({"op":"sk_reload","src":src,"fault":f(fault)}),
            Op::PkReload { src, fault } => json!({"op":"pk_reload","src":src,"fault":f(fault)}),
            Op::PkDerive { src } => json!({"op":"pk_derive","src":src}),
            Op::SkClone { src } => json!({"op":"sk_clone","src":src}),
            Op::PkClone { src } => json!({"op":"pk_clone","src":src}),
            Op::Restart { sk, pk } => json!({"op":"restart","sk":sk,"pk":pk}),
            Op::Sign { sk, msg, ctx, mode, rnd, via_os } => json!({"op":"sign","sk":sk,"msg":hx(msg),"ctx":hx(ctx),"mode":mode.name(),"rnd":hx(rnd),"via_os":via_os}),
            Op::Deliver { t, fault } => json!({"op":"deliver","tuple":t,"artefact":fault.as_ref().map(|(a, _)| *a),"fault":fault.as_ref().map(|(_, f)| f.to_json()).unwrap_or(Value::Null)}),
            Op::SkToBytes { src } => json!({"op":"sk_to_bytes","src":src}),
            Op::PkToBytes { src } => json!({"op":"pk_to_bytes","src":src}),
            Op::DeliverAs { t, mode } => json!({"op":"deliver_as_other_mode","tuple":t,"mode":mode.name()}),
            Op::DeliverReframed { t, split } => json!({"op":"deliver_reframed","tuple":t,"split":split}),
            Op::DeliverCross { t, shift, full } => json!({"op":"deliver_cross_protocol","tuple":t,"shift":shift,"full":full}),
            Op::DeliverLongCtx { t, kind } => json!({"op":"deliver_overlong_context","tuple":t,"kind":kind}),
            Op::SignWrapped { sk, msg, ctx_len, mode, rnd } => json!({"op":"sign_over_wrapped_length_byte","sk":sk,"msg":hx(msg),"ctx_len":ctx_len,"mode":mode.name(),"rnd":hx(rnd)}),
            Op::HugeCtx { sk, msg, extra, mode, rnd } => json!({"op":"context_of_4gib","sk":sk,"msg":hx(msg),"extra":extra,"mode":mode.name(),"rnd":hx(rnd)}),
        }
    }
    fn from_json(v: &Value) -> Option<Op> {
        let u = |k: &str| v[k].as_u64().map(|x| x as usize);
        let fault = || if v["fault"].is_null() { Some(None) } else { Fault::from_json(&v["fault"]).map(Some) };
        Some(match v["op"].as_str()? {
            "sk_reload" => Op::SkReload { src: u("src")?, fault: fault()? },
            "pk_reload" => Op::PkReload { src: u("src")?, fault: fault()? },
            "pk_derive" => Op::PkDerive { src: u("src")? },
            "sk_clone" => Op::SkClone { src: u("src")? },
            "pk_clone" => Op::PkClone { src: u("src")? },
            "restart" => Op::Restart { sk: u("sk")?, pk: u("pk")? },
            "sign" => Op::Sign { sk: u("sk")?, msg: unhx(&v["msg"]), ctx: unhx(&v["ctx"]), mode: Mode::from_name(v["mode"].as_str()?)?, rnd: unhx32(&v["rnd"]), via_os: v["via_os"].as_bool().unwrap_or(false) },
            "deliver" => Op::Deliver { t: u("tuple")?, fault: match fault()? { None => None, Some(f) => Some((v["artefact"].as_u64()? as u8, f)) } },
            "sk_to_bytes" => Op::SkToBytes { src: u("src")? },
            "pk_to_bytes" => Op::PkToBytes { src: u("src")? },
            "deliver_as_other_mode" => Op::DeliverAs { t: u("tuple")?, mode: Mode::from_name(v["mode"].as_str()?)? },
            "deliver_reframed" => Op::DeliverReframed { t: u("tuple")?, split: u("split")? },
            "deliver_cross_protocol" => Op::DeliverCross { t: u("tuple")?, shift: v["shift"].as_u64().unwrap_or(0) as u8, full: v["full"].as_bool().unwrap_or(false) },
            "deliver_overlong_context" => Op::DeliverLongCtx { t: u("tuple")?, kind: v["kind"].as_u64()? as u8 },
            "sign_over_wrapped_length_byte" => Op::SignWrapped { sk: u("sk")?, msg: unhx(&v["msg"]), ctx_len: u("ctx_len")?, mode: Mode::from_name(v["mode"].as_str()?)?, rnd: unhx32(&v["rnd"]) },
            "context_of_4gib" => Op::HugeCtx { sk: u("sk")?, msg: unhx(&v["msg"]), extra: v["extra"].as_u64().unwrap_or(0) as u8, mode: Mode::from_name(v["mode"].as_str()?)?, rnd: unhx32(&v["rnd"]) },
            _ => return None,
        })
    }
}

struct SkRep {
    obj: Box<dyn DynSk>,
    honest: bool,
    prov: String,
}

struct PkRep {
    obj: Box<dyn DynPk>,
    honest: bool,
    derived: bool,
    prov: String,
}

struct Tuple {
    msg: Vec<u8>,
    ctx: Vec<u8>,
    mode: Mode,
    sig: Vec<u8>,
    /// signed by an honest private-key replica
    honest: bool,
    /// the signer accepted a context longer than 255 bytes (itself a C07 violation); kept so that the
    /// channel can re-frame it, never expected to verify as it is
    overlong: bool,
}

#[derive(Clone, Debug)]
pub struct Finding {
    pub prop: &'static str,
    pub invariant: String,
    pub at_op: usize,
    pub observed: String,
    pub expected: String,
}

#[derive(Default)]
pub struct Stats {
    pub ops: u64,
    pub verifies: u64,
    pub signs: u64,
    pub loads: u64,
    pub restarts: u64,
    pub faults_fired: BTreeMap<String, u64>,
    pub sigs: BTreeSet<String>,
    pub tainted_objects: u64,
    pub rejected_loads: u64,
    pub max_pk_replicas: usize,
}

fn prov_depth(p: &str) -> usize { p.matches('>').count() }

/// Execute a history against the real library; collect every oracle breach (for all properties).
pub fn execute(set: &dyn DynSet, xi: &[u8; 32], xi_other: &[u8; 32], ops: &[Op], st: &mut Stats) -> Result<Vec<Finding>, String> {
    let info = set.info();
    let mut finds: Vec<Finding> = Vec::new();
    // reference model: the generated pair, never restarted, never moved through the store
    let (pk0, sk0) = match catch(|| set.keygen_seed(xi)) {
        Ok(p) => p,
        Err(p) => {
            // nothing else can be judged on this history; key generation must not panic either
            return Ok(vec![Finding { prop: "C13", invariant: "panic:keygen_from_seed".into(), at_op: 0, observed: format!("keygen_from_seed panicked: {p}"), expected: "a key pair".into() }]);
        }
    };
    let pk0_bytes = pk0.to_bytes();
    // the "other honest key" only feeds torn writes; should its generation panic, the reference key's bytes serve
    let (other_pk_bytes, other_sk_bytes) = match catch(|| set.keygen_seed(xi_other)) {
        Ok((opk, osk)) => (opk.to_bytes(), osk.to_bytes()),
        Err(_) => (pk0_bytes.clone(), sk0.to_bytes()),
    };
    let mut sks: Vec<SkRep> = vec![SkRep { obj: sk0.dup(), honest: true, prov: "gen".into() }];
    let mut pks: Vec<PkRep> = vec![PkRep { obj: pk0.dup(), honest: true, derived: false, prov: "gen".into() }];
    let mut tuples: Vec<Tuple> = Vec::new();
    let bump = |m: &mut BTreeMap<String, u64>, k: &str| *m.entry(k.to_string()).or_insert(0) += 1;

    macro_rules! guard {
        ($i:expr, $what:expr, $body:expr) => {
            match catch(|| $body) {
                Ok(v) => Some(v),
                Err(p) => {
                    finds.push(Finding { prop: "C13", invariant: format!("panic:{}", $what), at_op: $i, observed: format!("{} panicked: {p}", $what), expected: "a value or an error".into() });
                    None
                }
            }
        };
    }

    let _watch = watch::enter("history start", || json!({"set": info.name, "seed_xi": hx(xi), "other_seed_xi": hx(xi_other), "ops": ops.iter().map(|o| o.to_json()).collect::<Vec<_>>()}).to_string());
    for (i, op) in ops.iter().enumerate() {
        st.ops += 1;
        watch::touch(i, || format!("operation {i} ({}) of a history on {}", op.name(), info.name));
        match op {
            Op::SkReload { src, fault } => {
                let s = &sks[src % sks.len()];
                let (honest_src, prov_src) = (s.honest, s.prov.clone());
                let Some(mut b) = guard!(i, "PrivateKey::into_bytes", s.obj.to_bytes()) else { continue };
                if let Some(f) = fault {
                    let before = b.clone();
                    f.apply(&mut b, &other_sk_bytes);
                    if b != before {
                        bump(&mut st.faults_fired, &format!("store/sk/{}", f.class()));
                    }
                }
                let faulted = fault.is_some();
                st.loads += 1;
                match guard!(i, "PrivateKey::try_from_bytes", set.sk_from_bytes(&b)) {
                    None => {}
                    Some(Err(e)) => {
                        st.rejected_loads += 1;
                        if !faulted && honest_src {
                            finds.push(Finding { prop: "C09", invariant: "honest-sk-rejected".into(), at_op: i, observed: format!("try_from_bytes(into_bytes(honest key)) = Err({e:?})"), expected: "Ok".into() });
                        }
                    }
                    Some(Ok(k)) => {
                        if let Some(b2) = guard!(i, "PrivateKey::into_bytes", k.to_bytes()) {
                            if b2 != b {
                                let d = b.iter().zip(b2.iter()).position(|(x, y)| x != y).unwrap_or(0);
                                finds.push(Finding { prop: "C09", invariant: "sk-roundtrip-differs".into(), at_op: i, observed: format!("accepted private-key bytes serialise back differently (first difference at byte {d}; stored bytes {})", if faulted { "faulted" } else { "intact" }), expected: "identical bytes".into() });
                            }
                        }
                        let honest = honest_src && !faulted;
                        if !honest {
                            st.tainted_objects += 1;
                        }
                        sks.push(SkRep { obj: k, honest, prov: format!("{prov_src}>load{}", if faulted { "!" } else { "" }) });
                    }
                }
            }
            Op::PkReload { src, fault } => {
                let s = &pks[src % pks.len()];
                let (honest_src, prov_src) = (s.honest, s.prov.clone());
                let Some(mut b) = guard!(i, "PublicKey::into_bytes", s.obj.to_bytes()) else { continue };
                if let Some(f) = fault {
                    let before = b.clone();
                    f.apply(&mut b, &other_pk_bytes);
                    if b != before {
                        bump(&mut st.faults_fired, &format!("store/pk/{}", f.class()));
                    }
                }
                let faulted = fault.is_some();
                st.loads += 1;
                match guard!(i, "PublicKey::try_from_bytes", set.pk_from_bytes(&b)) {
                    None => {
                        finds.push(Finding { prop: "C09", invariant: "pk-load-panics".into(), at_op: i, observed: format!("PublicKey::try_from_bytes panicked ({} bytes)", if faulted { "faulted" } else { "intact" }), expected: "every byte string of public-key length deserialises".into() });
                    }
                    Some(Err(e)) => {
                        st.rejected_loads += 1;
                        finds.push(Finding { prop: "C09", invariant: "pk-rejected".into(), at_op: i, observed: format!("PublicKey::try_from_bytes = Err({e:?}) ({} bytes)", if faulted { "faulted" } else { "intact" }), expected: "every byte string of public-key length deserialises".into() });
                    }
                    Some(Ok(k)) => {
                        if let Some(b2) = guard!(i, "PublicKey::into_bytes", k.to_bytes()) {
                            if b2 != b {
                                let d = b.iter().zip(b2.iter()).position(|(x, y)| x != y).unwrap_or(0);
                                finds.push(Finding { prop: "C09", invariant: "pk-roundtrip-differs".into(), at_op: i, observed: format!("public-key bytes serialise back differently (first difference at byte {d}; stored bytes {})", if faulted { "faulted" } else { "intact" }), expected: "identical bytes".into() });
                            }
                        }
                        let honest = honest_src && !faulted;
                        if !honest {
                            st.tainted_objects += 1;
                        }
                        pks.push(PkRep { obj: k, honest, derived: false, prov: format!("{prov_src}>load{}", if faulted { "!" } else { "" }) });
                    }
                }
            }
            Op::PkDerive { src } => {
                let s = &sks[src % sks.len()];
                let (honest, prov) = (s.honest, s.prov.clone());
                if let Some(k) = guard!(i, "get_public_key", s.obj.public()) {
                    if honest {
                        if let Some(b) = guard!(i, "PublicKey::into_bytes", k.to_bytes()) {
                            if b != pk0_bytes {
                                let d = b.iter().zip(pk0_bytes.iter()).position(|(x, y)| x != y).unwrap_or(0);
                                finds.push(Finding { prop: "C11", invariant: "derived-bytes-differ".into(), at_op: i, observed: format!("public key derived from private-key replica `{prov}` serialises differently from the generated one (first difference at byte {d})"), expected: "identical bytes".into() });
                            }
                        }
                    }
                    pks.push(PkRep { obj: k, honest, derived: true, prov: format!("{prov}>derive") });
                }
            }
            Op::SkClone { src } => {
                let s = &sks[src % sks.len()];
                let (honest, prov) = (s.honest, format!("{}>clone", s.prov));
                let via_from = src % 2 == 1; // odd references use Clone::clone_from into another pair's object
                if let Some(k) = guard!(i, "PrivateKey::clone", if via_from { s.obj.dup_via_clone_from() } else { s.obj.dup() }) {
                    sks.push(SkRep { obj: k, honest, prov: if via_from { format!("{prov}_from") } else { prov } });
                }
            }
            Op::PkClone { src } => {
                let s = &pks[src % pks.len()];
                let (honest, derived, prov) = (s.honest, s.derived, format!("{}>clone", s.prov));
                let via_from = src % 2 == 1;
                if let Some(k) = guard!(i, "PublicKey::clone", if via_from { s.obj.dup_via_clone_from() } else { s.obj.dup() }) {
                    pks.push(PkRep { obj: k, honest, derived, prov: if via_from { format!("{prov}_from") } else { prov } });
                }
            }
            Op::Restart { sk, pk } => {
                st.restarts += 1;
                let (si, pi) = (sk % sks.len(), pk % pks.len());
                let sb = guard!(i, "PrivateKey::into_bytes", sks[si].obj.to_bytes());
                let pb = guard!(i, "PublicKey::into_bytes", pks[pi].obj.to_bytes());
                let (sh, sp) = (sks[si].honest, sks[si].prov.clone());
                let (ph, pd, pp) = (pks[pi].honest, pks[pi].derived, pks[pi].prov.clone());
                // crash: nothing in memory survives
                sks.clear();
                pks.clear();
                if let Some(sb) = sb {
                    match guard!(i, "PrivateKey::try_from_bytes", set.sk_from_bytes(&sb)) {
                        Some(Ok(k)) => sks.push(SkRep { obj: k, honest: sh, prov: format!("{sp}>restart") }),
                        Some(Err(e)) if sh => finds.push(Finding { prop: "C09", invariant: "honest-sk-rejected".into(), at_op: i, observed: format!("after restart try_from_bytes = Err({e:?})"), expected: "Ok".into() }),
                        _ => {}
                    }
                }
                if let Some(pb) = pb {
                    match guard!(i, "PublicKey::try_from_bytes", set.pk_from_bytes(&pb)) {
                        Some(Ok(k)) => pks.push(PkRep { obj: k, honest: ph, derived: pd, prov: format!("{pp}>restart") }),
                        Some(Err(e)) => finds.push(Finding { prop: "C09", invariant: "pk-rejected".into(), at_op: i, observed: format!("after restart PublicKey::try_from_bytes = Err({e:?})"), expected: "Ok".into() }),
                        _ => {}
                    }
                }
                // a party that lost its keys entirely re-creates them from the seed (same logical key)
                if sks.is_empty() {
                    sks.push(SkRep { obj: sk0.dup(), honest: true, prov: "gen".into() });
                }
                if pks.is_empty() {
                    pks.push(PkRep { obj: pk0.dup(), honest: true, derived: false, prov: "gen".into() });
                }
            }
            Op::Sign { sk, msg, ctx, mode, rnd, via_os } => {
                st.signs += 1;
                let s = &sks[sk % sks.len()];
                let (honest, prov) = (s.honest, s.prov.clone());
                let r = if *via_os {
                    // OS-RNG convenience entry point; the kernel seam hands over exactly `rnd`
                    let mut ks = crate::kernel::KState::new(rnd.to_vec(), vec![]);
                    match guard!(i, "sign(OS RNG)", crate::kernel::with_kernel(&mut ks, || s.obj.sign_os(msg, ctx, *mode))) {
                        Some(Some(r)) => Some(r),
                        Some(None) => continue, // entry point not compiled in
                        None => None,
                    }
                } else {
                    guard!(i, "sign", s.obj.sign_rng(&mut SimRng::healthy(rnd.to_vec()), msg, ctx, *mode))
                };
                match r {
                    None => {}
                    Some(Err(e)) => {
                        if ctx.len() <= 255 && honest {
                            for prop in ["C01", "C07"] {
                                finds.push(Finding { prop, invariant: "honest-sign-fails".into(), at_op: i, observed: format!("signing ({}) with honest replica `{prov}` and a {}-byte context returned Err({e:?})", mode.name(), ctx.len()), expected: "a signature".into() });
                            }
                        }
                    }
                    Some(Ok(sig)) if ctx.len() > 255 => {
                        finds.push(Finding { prop: "C07", invariant: "signer-accepts-overlong-context".into(), at_op: i, observed: format!("signing ({}) with a {}-byte context returned a signature", mode.name(), ctx.len()), expected: "Err".into() });
                        tuples.push(Tuple { msg: msg.clone(), ctx: ctx.clone(), mode: *mode, sig, honest, overlong: true });
                    }
                    Some(Ok(sig)) => {
                        if honest && !*via_os {
                            // refinement: the reference object signs identically for the same randomness
                            // (not demanded of the OS entry point: how it draws is C12's business)
                            if let Ok(Ok(ref_sig)) = catch(|| sk0.sign_rng(&mut SimRng::healthy(rnd.to_vec()), msg, ctx, *mode)) {
                                if ref_sig != sig {
                                    finds.push(Finding { prop: "C09", invariant: "replica-signs-differently".into(), at_op: i, observed: format!("private-key replica `{prov}` and the never-restarted reference produce different signatures for the same message, context, mode and randomness"), expected: "identical signatures".into() });
                                }
                            }
                        }
                        st.sigs.insert(format!("{}|sign|{}|depth{}|{}|m{}|c{}", info.name, mode.name(), prov_depth(&prov).min(3), if honest { "honest" } else { "tainted" }, len_class(msg.len()), len_class(ctx.len())));
                        tuples.push(Tuple { msg: msg.clone(), ctx: ctx.clone(), mode: *mode, sig, honest, overlong: false });
                    }
                }
            }
            Op::Deliver { t, fault } => {
                if tuples.is_empty() {
                    continue;
                }
                let tu = if *t >= 999_999 { &tuples[tuples.len() - 1] } else { &tuples[t % tuples.len()] };
                let (mut msg, mut ctx, mut sig) = (tu.msg.clone(), tu.ctx.clone(), tu.sig.clone());
                let mut changed = false;
                if let Some((art, f)) = fault {
                    let target = match art % 3 {
                        0 => &mut sig,
                        1 => &mut msg,
                        _ => &mut ctx,
                    };
                    let before = target.clone();
                    f.apply(target, &[]);
                    changed = *target != before;
                    if changed {
                        bump(&mut st.faults_fired, &format!("channel/{}/{}", ["sig", "msg", "ctx"][(*art % 3) as usize], f.class()));
                    }
                }
                let intact = !changed;
                // the reference model's decision
                let ref_dec = guard!(i, "verify", pk0.verify(&msg, &sig, &ctx, tu.mode));
                st.max_pk_replicas = st.max_pk_replicas.max(pks.len());
                for p in pks.iter() {
                    st.verifies += 1;
                    let Some(dec) = guard!(i, "verify", p.obj.verify(&msg, &sig, &ctx, tu.mode)) else { continue };
                    st.sigs.insert(format!("{}|verify|{}|{}|depth{}|{}|{}|{}", info.name, tu.mode.name(), if p.derived { "derived" } else { "loaded" }, prov_depth(&p.prov).min(3), if p.honest { "honest" } else { "tainted" }, if intact { "intact" } else { "faulted" }, dec));
                    if ctx.len() > 255 && dec {
                        finds.push(Finding { prop: "C07", invariant: "verifier-accepts-overlong-context".into(), at_op: i, observed: format!("verification ({}) with a {}-byte context returned true (replica `{}`)", tu.mode.name(), ctx.len(), p.prov), expected: "verification returns false".into() });
                    }
                    if !p.honest {
                        continue;
                    }
                    if intact && tu.honest && !tu.overlong && !dec && !tu.ctx.is_empty() {
                        // does the rejection depend on the context? re-sign the same message with the
                        // reference key under an empty context and ask the same replica
                        let probe = catch(|| {
                            sk0.sign_rng(&mut SimRng::healthy(vec![7u8; 32]), &tu.msg, &[], tu.mode).map(|s2| p.obj.verify(&tu.msg, &s2, &[], tu.mode))
                        });
                        if let Ok(Ok(true)) = probe {
                            finds.push(Finding { prop: "C07", invariant: "legal-context-rejected".into(), at_op: i, observed: format!("intact {} tuple with a {}-byte context rejected by replica `{}` although the same message with an empty context is accepted", tu.mode.name(), ctx.len(), p.prov), expected: "every context of 0..255 bytes is accepted".into() });
                        }
                    }
                    if intact && tu.honest && !tu.overlong && !dec {
                        finds.push(Finding { prop: "C01", invariant: "honest-tuple-rejected".into(), at_op: i, observed: format!("intact {} tuple (message {} bytes, context {} bytes) rejected by public-key replica `{}`", tu.mode.name(), msg.len(), ctx.len(), p.prov), expected: "verification returns true".into() });
                    }
                    if let Some(rd) = ref_dec {
                        if rd != dec {
                            let (prop, inv) = if p.derived { ("C11", "derived-replica-diverges") } else { ("C09", "reloaded-replica-diverges") };
                            finds.push(Finding { prop, invariant: inv.into(), at_op: i, observed: format!("public-key replica `{}` decides {dec} where the generated reference decides {rd} ({} tuple)", p.prov, if intact { "intact" } else { "faulted" }), expected: "identical decisions".into() });
                        }
                    }
                }
            }
            Op::SkToBytes { src } => {
                let s = &sks[src % sks.len()];
                let _ = guard!(i, "PrivateKey::into_bytes", s.obj.to_bytes());
            }
            Op::SignWrapped { sk, msg, ctx_len, mode, rnd } => {
                let s = &sks[sk % sks.len()];
                let honest = s.honest;
                let cl = (*ctx_len).max(256);
                let ctx: Vec<u8> = (0..cl).map(|j| (j as u8).wrapping_mul(31).wrapping_add(7)).collect();
                let mut mp = vec![u8::from(*mode != Mode::Pure), (cl % 256) as u8];
                mp.extend_from_slice(&ctx);
                match formatted_prehash(*mode, msg) {
                    Some(f) => mp.extend_from_slice(&f),
                    None => mp.extend_from_slice(msg),
                }
                // the internal interface itself must refuse an over-long context argument ...
                if let Some(Ok(_)) = guard!(i, "_internal_sign", s.obj.sign_internal_ctx(msg, &ctx, *rnd)) {
                    finds.push(Finding { prop: "C07", invariant: "signer-accepts-overlong-context".into(), at_op: i, observed: format!("_internal_sign with a {cl}-byte context returned a signature"), expected: "Err".into() });
                }
                let Some(Ok(sig)) = guard!(i, "_internal_sign", s.obj.sign_internal(&mp, *rnd)) else { continue };
                // ... and so must internal verification (the message is taken as already formatted)
                for p in pks.iter() {
                    if let Some(true) = guard!(i, "_internal_verify", p.obj.verify_internal(&mp, &sig, &ctx)) {
                        finds.push(Finding { prop: "C07", invariant: "verifier-accepts-overlong-context".into(), at_op: i, observed: format!("_internal_verify with a {cl}-byte context returned true (replica `{}`)", p.prov), expected: "verification returns false".into() });
                    }
                }
                bump(&mut st.faults_fired, "channel/signature_over_wrapped_length_byte");
                for p in pks.iter() {
                    st.verifies += 1;
                    let Some(dec) = guard!(i, "verify", p.obj.verify(msg, &sig, &ctx, *mode)) else { continue };
                    st.sigs.insert(format!("{}|wrapped_len|{}|{}|{}", info.name, mode.name(), if p.honest && honest { "honest" } else { "tainted" }, dec));
                    if dec {
                        finds.push(Finding { prop: "C07", invariant: "verifier-accepts-overlong-context".into(), at_op: i, observed: format!("verification ({}) with a {cl}-byte context returned true for a signature the key owner made over the wrapped length byte (replica `{}`)", mode.name(), p.prov), expected: "verification returns false".into() });
                    }
                }
            }
            Op::HugeCtx { sk, msg, extra, mode, rnd } => {
                if cfg!(miri) || usize::BITS < 64 {
                    continue;
                }
                let s = &sks[sk % sks.len()];
                let cl = (1usize << 32) + *extra as usize;
                // zero pages straight from the allocator: costs no memory and no time unless the library reads them
                // (where the platform refuses 4 GiB of address space the operation is skipped and counted)
                let Some(ctx) = zero_pages(cl) else {
                    bump(&mut st.faults_fired, "channel/context_of_4gib/unavailable");
                    continue;
                };
                bump(&mut st.faults_fired, "channel/context_of_4gib");
                // a library that lets this through hashes 4 GiB per call (about 12 s): report the first acceptance
                // and move on; every call gets its own liveness window, and only the first verifier replica is asked
                watch::touch(i, || format!("operation {i} ({}: sign) of a history on {}", op.name(), info.name));
                if let Some(Ok(_)) = guard!(i, "sign", s.obj.sign_rng(&mut SimRng::healthy(rnd.to_vec()), msg, &ctx, *mode)) {
                    finds.push(Finding { prop: "C07", invariant: "signer-accepts-overlong-context".into(), at_op: i, observed: format!("signing ({}) with a context of 2^32+{extra} bytes returned a signature", mode.name()), expected: "Err".into() });
                    continue;
                }
                watch::touch(i, || format!("operation {i} ({}: _internal_sign) of a history on {}", op.name(), info.name));
                if let Some(Ok(_)) = guard!(i, "_internal_sign", s.obj.sign_internal_ctx(msg, &ctx, *rnd)) {
                    finds.push(Finding { prop: "C07", invariant: "signer-accepts-overlong-context".into(), at_op: i, observed: format!("_internal_sign with a context of 2^32+{extra} bytes returned a signature"), expected: "Err".into() });
                    continue;
                }
                let (Some(tu), Some(p)) = (tuples.last(), pks.first()) else { continue };
                watch::touch(i, || format!("operation {i} ({}: verify) of a history on {}", op.name(), info.name));
                st.verifies += 1;
                let Some(dec) = guard!(i, "verify", p.obj.verify(&tu.msg, &tu.sig, &ctx, tu.mode)) else { continue };
                st.sigs.insert(format!("{}|context_of_4gib|{}|{}", info.name, tu.mode.name(), dec));
                if dec {
                    finds.push(Finding { prop: "C07", invariant: "verifier-accepts-overlong-context".into(), at_op: i, observed: format!("verification ({}) with a context of 2^32+{extra} bytes returned true (replica `{}`)", tu.mode.name(), p.prov), expected: "verification returns false".into() });
                }
            }
            Op::DeliverAs { .. } | Op::DeliverReframed { .. } | Op::DeliverCross { .. } | Op::DeliverLongCtx { .. } => {
                if tuples.is_empty() {
                    continue;
                }
                let (t, what): (usize, &str) = match op {
                    Op::DeliverAs { t, .. } => (*t, "another mode's endpoint"),
                    Op::DeliverReframed { t, .. } => (*t, "another ctx/message boundary"),
                    Op::DeliverCross { t, .. } => (*t, "the pure endpoint with the formatted input as message"),
                    Op::DeliverLongCtx { t, .. } => (*t, "the same endpoint with an over-long context"),
                    _ => unreachable!(),
                };
                // index 999_999 and above means "the tuple signed last"
                let tu = if t >= 999_999 { &tuples[tuples.len() - 1] } else { &tuples[t % tuples.len()] };
                let (mut msg, mut ctx, mut mode) = (tu.msg.clone(), tu.ctx.clone(), tu.mode);
                match op {
                    Op::DeliverAs { mode: m2, .. } => {
                        if *m2 == tu.mode {
                            continue;
                        }
                        mode = *m2;
                    }
                    Op::DeliverReframed { split, .. } => {
                        let mut cat = tu.ctx.clone();
                        cat.extend_from_slice(&tu.msg);
                        // splits beyond 255 give an over-long context: the aliasing case of the length byte
                        // split codes >= 10000 ask for the aliasing boundary |ctx| + 256*(code-9999)
                        // ... and code 20000 for |ctx| + 65536 (16-bit aliasing; needs a message over 64 KiB)
                        // (for a tuple whose context is already over-long the aliasing boundary lies below: |ctx| - 256*j)
                        // split codes 30000..30016 move the tuple's own boundary by code-30008 bytes (-8..+8): the
                        // neighbouring splits, where a length byte clamped or off by one aliases
                        let step = if *split >= 30_000 { 0 } else if *split >= 20_000 { 65_536 } else if *split >= 10_000 { 256 * (split - 9_999) } else { 0 };
                        let k = if *split >= 30_000 {
                            match (tu.ctx.len() + (split - 30_000).min(16)).checked_sub(8) {
                                Some(k) => k,
                                None => continue,
                            }
                        } else if step > 0 {
                            if tu.ctx.len() + step <= cat.len() && tu.ctx.len() <= 255 { tu.ctx.len() + step } else if tu.ctx.len() >= step { tu.ctx.len() - step } else { continue }
                        } else {
                            split % (cat.len().min(600) + 1)
                        };
                        if k == tu.ctx.len() || k > cat.len() {
                            continue;
                        }
                        ctx = cat[..k].to_vec();
                        msg = cat[k..].to_vec();
                    }
                    Op::DeliverCross { shift, full, .. } => {
                        if *full {
                            // the signer's whole formatted input presented as the message, empty context
                            let mut mp = vec![u8::from(tu.mode != Mode::Pure), (tu.ctx.len() % 256) as u8];
                            mp.extend_from_slice(&tu.ctx);
                            match formatted_prehash(tu.mode, &tu.msg) {
                                Some(f) => mp.extend_from_slice(&f),
                                None => mp.extend_from_slice(&tu.msg),
                            }
                            msg = mp;
                            ctx = Vec::new();
                        } else {
                            let Some(fm) = formatted_prehash(tu.mode, &tu.msg) else { continue };
                            // boundary moved `shift` bytes into OID || PH(M)
                            let sh = (*shift as usize).min(fm.len()).min(255usize.saturating_sub(tu.ctx.len()));
                            ctx.extend_from_slice(&fm[..sh]);
                            msg = fm[sh..].to_vec();
                        }
                        mode = Mode::Pure;
                    }
                    Op::DeliverLongCtx { kind, .. } => match kind % 4 {
                        0 => ctx.extend_from_slice(&[0u8; 256]),
                        1 => ctx.extend_from_slice(&[0x5Au8; 512]),
                        2 => ctx = vec![0u8; 256],
                        _ => ctx = vec![0xA5u8; 257],
                    },
                    _ => unreachable!(),
                }
                let c07 = ctx.len() > 255;
                bump(&mut st.faults_fired, &format!("channel/{}{}", op.name(), if c07 && !matches!(op, Op::DeliverLongCtx { .. }) { "/overlong_ctx" } else { "" }));
                for p in pks.iter() {
                    st.verifies += 1;
                    let Some(dec) = guard!(i, "verify", p.obj.verify(&msg, &tu.sig, &ctx, mode)) else { continue };
                    st.sigs.insert(format!("{}|{}|{}->{}|{}|{}", info.name, op.name(), tu.mode.name(), mode.name(), if p.honest { "honest" } else { "tainted" }, dec));
                    if c07 && dec {
                        finds.push(Finding { prop: "C07", invariant: "verifier-accepts-overlong-context".into(), at_op: i, observed: format!("verification ({}) with a {}-byte context returned true (replica `{}`, original context {} bytes)", mode.name(), ctx.len(), p.prov, tu.ctx.len()), expected: "verification returns false".into() });
                    }
                    if p.honest && tu.honest && dec && !matches!(op, Op::DeliverLongCtx { .. }) {
                        finds.push(Finding { prop: "C06", invariant: format!("accepted:{}", op.name()), at_op: i, observed: format!("a {} signature for a {}-byte message and {}-byte context was accepted when delivered to {what} (as {}, message {} bytes, context {} bytes) by replica `{}`", tu.mode.name(), tu.msg.len(), tu.ctx.len(), mode.name(), msg.len(), ctx.len(), p.prov), expected: "verification returns false".into() });
                    }
                }
            }
            Op::PkToBytes { src } => {
                let s = &pks[src % pks.len()];
                let (honest, derived, prov) = (s.honest, s.derived, s.prov.clone());
                if let Some(b) = guard!(i, "PublicKey::into_bytes", s.obj.to_bytes()) {
                    if honest && b != pk0_bytes {
                        finds.push(Finding { prop: if derived { "C11" } else { "C09" }, invariant: "replica-bytes-differ".into(), at_op: i, observed: format!("honest public-key replica `{prov}` serialises differently from the generated reference"), expected: "identical bytes".into() });
                    }
                }
            }
        }
        if sks.len() > 12 {
            sks.drain(1..4);
        }
        if pks.len() > 12 {
            pks.drain(1..4);
        }
    }
    Ok(finds)
}

/// OID || PH(M) as FIPS 204 Algorithm 4 formats it (the channel needs it to model a tuple that is
/// delivered to the wrong protocol endpoint; nothing of the library is replaced by this).
fn formatted_prehash(mode: Mode, m: &[u8]) -> Option<Vec<u8>> {
    use sha3::digest::{ExtendableOutput, Update, XofReader};
    let mut v = vec![0x06u8, 0x09, 0x60, 0x86, 0x48, 0x01, 0x65, 0x03, 0x04, 0x02];
    match mode {
        Mode::Pure => return None,
        Mode::Sha256 => {
            use sha2::Digest;
            v.push(0x01);
            v.extend_from_slice(&sha2::Sha256::digest(m));
        }
        Mode::Sha512 => {
            use sha2::Digest;
            v.push(0x03);
            v.extend_from_slice(&sha2::Sha512::digest(m));
        }
        Mode::Shake128 => {
            v.push(0x0B);
            let mut h = sha3::Shake128::default();
            h.update(m);
            let mut out = [0u8; 32];
            h.finalize_xof().read(&mut out);
            v.extend_from_slice(&out);
        }
    }
    Some(v)
}

fn len_class(n: usize) -> &'static str {
    match n {
        0 => "0",
        1 => "1",
        2..=135 => "<rate",
        136 => "=rate",
        137..=254 => ">rate",
        255 => "255",
        _ => "multi",
    }
}

fn gen_fault(p: &mut Prng, len: usize, region_bias: Option<(usize, usize)>) -> Fault {
    let n = len.max(1);
    let pos = |p: &mut Prng| -> usize {
        match region_bias {
            Some((lo, hi)) if p.chance(1, 2) && hi > lo => lo + p.usize_below(hi - lo),
            _ => p.usize_below(n),
        }
    };
    match p.below(11) {
        10 => {
            let kind = if p.chance(1, 2) { p.below(4) as u16 } else { 4 + *p.pick(&[0x44u16, 0x22, 0x11, 0x88, 0x33, 0xCC, 0x0F, 0xF0, 0x01, 0x80, 0x7F, 0xFE]) };
            if p.chance(1, 2) {
                Fault::Pattern { kind, off: 0, len: 0 }
            } else {
                let len = *p.pick(&[32usize, 64, 96, 128, 416, 512]);
                Fault::Pattern { kind, off: (pos(p) / len) * len, len }
            }
        }
        0..=3 => Fault::BitFlip(pos(p) * 8 + p.usize_below(8)),
        4 => Fault::Stuck(pos(p), 0x00),
        5 => Fault::Stuck(pos(p), 0xFF),
        6 => Fault::Lost(if p.chance(1, 2) { 0x00 } else { 0xFF }),
        7 | 8 => Fault::Torn(1 + p.usize_below(n.saturating_sub(1).max(1))),
        _ => Fault::MultiBit((0..2 + p.usize_below(6)).map(|_| pos(p) * 8 + p.usize_below(8)).collect()),
    }
}

// incl. lengths at which a slice boundary of the absorbed stream tr|dom|len|ctx|... meets a SHAKE256 block boundary
const MSG_LENS: [usize; 12] = [0, 1, 8, 65, 70, 135, 136, 137, 168, 206, 1000, 3000];
const CTX_LENS: [usize; 10] = [0, 1, 27, 32, 59, 70, 131, 200, 254, 255];

/// `n` zero bytes as untouched pages from the allocator, or None where that much address space is refused
/// (`vec![0; n]` would abort the process instead).
fn zero_pages(n: usize) -> Option<Vec<u8>> {
    let layout = std::alloc::Layout::array::<u8>(n).ok()?;
    // SAFETY: non-zero size; the pointer comes from the global allocator with exactly this layout
    // (size n, alignment 1), which is what Vec<u8> with capacity n hands back on drop; all n bytes are
    // initialised (zero)
    unsafe {
        let p = std::alloc::alloc_zeroed(layout);
        if p.is_null() { None } else { Some(Vec::from_raw_parts(p, n, n)) }
    }
}

/// Generate one seeded history.
pub fn gen_history(p: &mut Prng, set: &dyn DynSet) -> Vec<Op> {
    let info = set.info();
    let n_ops = 8 + p.usize_below(18);
    // swarm: per-run fault rate and operation mix
    let fault_pct = *p.pick(&[0u64, 0, 15, 35, 60]);
    let restart_heavy = p.chance(1, 3);
    let mut ops = Vec::new();
    // every history starts by producing at least one tuple so that deliveries have a subject
    let mut tuples = 0usize;
    for k in 0..n_ops {
        let roll = p.below(100);
        let faulty = p.chance(fault_pct, 100);
        let op = if k == 1 || (tuples == 0 && k > 3) || roll < 22 {
            tuples += 1;
            let (ml, cl) = (*p.pick(&MSG_LENS), *p.pick(&CTX_LENS));
            // now and then a message longer than 64 KiB (pre-hash bulk paths, 16-bit length aliasing)
            let ml = if p.chance(1, 40) { 65_536 + 200 + p.usize_below(300) } else { ml };
            Op::Sign { sk: p.usize_below(8), msg: p.bytes(ml), ctx: p.bytes(cl), mode: *p.pick(&MODES), rnd: p.array32(), via_os: p.chance(1, 5) }
        } else if roll < 47 {
            let fault = if faulty && tuples > 0 {
                let art = p.below(3) as u8;
                let len = match art { 0 => info.sig_len, 1 => 64, _ => 32 };
                let bias = if art == 0 { Some((info.hint_start(), info.sig_len)) } else { None };
                let f = match gen_fault(p, len, bias) {
                    Fault::Torn(_) => Fault::BitFlip(p.usize_below(len * 8)),
                    f => f,
                };
                Some((art, f))
            } else {
                None
            };
            Op::Deliver { t: p.usize_below(8), fault }
        } else if roll < 59 {
            Op::SkReload { src: p.usize_below(8), fault: if faulty { Some(gen_fault(p, info.sk_len, Some((128, info.sk_len)))) } else { None } }
        } else if roll < 71 {
            Op::PkReload { src: p.usize_below(8), fault: if faulty { Some(gen_fault(p, info.pk_len, None)) } else { None } }
        } else if roll < 81 {
            Op::PkDerive { src: p.usize_below(8) }
        } else if roll < 85 {
            Op::SkClone { src: p.usize_below(8) }
        } else if roll < 89 {
            Op::PkClone { src: p.usize_below(8) }
        } else if roll < (if restart_heavy { 97 } else { 92 }) {
            Op::Restart { sk: p.usize_below(8), pk: p.usize_below(8) }
        } else if roll < 98 {
            Op::SkToBytes { src: p.usize_below(8) }
        } else {
            Op::PkToBytes { src: p.usize_below(8) }
        };
        ops.push(op);
        // misrouting and framing faults of the channel (every run: they cost one verification each)
        let op = match p.below(12) {
            3 => Op::DeliverLongCtx { t: p.usize_below(8), kind: p.below(4) as u8 },
            5 if p.chance(2, 3) => {
                let ml = *p.pick(&MSG_LENS[..8]);
                Op::SignWrapped { sk: p.usize_below(8), msg: p.bytes(ml), ctx_len: *p.pick(&[256usize, 257, 258, 300, 511, 512, 1000, 65_539]), mode: *p.pick(&MODES), rnd: p.array32() }
            }
            4 if p.chance(1, 2) => {
                let cl = *p.pick(&[256usize, 257, 300, 511, 512, 1000, 65_791]);
                let ml = *p.pick(&MSG_LENS[..8]);
                ops.push(Op::Sign { sk: p.usize_below(8), msg: p.bytes(ml), ctx: p.bytes(cl), mode: *p.pick(&MODES), rnd: p.array32(), via_os: p.chance(1, 3) });
                // should the signer have accepted it, the tuple is re-framed at once at the aliasing boundary
                Op::DeliverReframed { t: 999_999, split: if cl >= 65_536 { 20_000 } else { 10_000 + (cl / 256).saturating_sub(1).min(1) } }
            }
            0 => Op::DeliverAs { t: p.usize_below(8), mode: *p.pick(&MODES) },
            1 => Op::DeliverReframed { t: p.usize_below(8), split: match p.below(6) { 0 => *p.pick(&[256usize, 257, 300, 512]), 1 => p.usize_below(4), 2 => *p.pick(&[10_000usize, 10_001, 20_000]), 3 => *p.pick(&[30_007usize, 30_009, 30_007, 30_009, 30_006, 30_010, 30_000, 30_016]), _ => p.usize_below(256) } },
            2 => Op::DeliverCross { t: p.usize_below(8), shift: *p.pick(&[0u8, 0, 1, 2, 11]), full: p.chance(1, 4) },
            _ => continue,
        };
        ops.push(op);
    }
    // close the history with deliveries to whatever replicas exist at the end
    ops.push(Op::Deliver { t: p.usize_below(8), fault: None });
    ops.push(Op::Deliver { t: p.usize_below(8), fault: None });
    // the 32-bit wrap of the context length (drawn last: histories keep their earlier operations)
    if p.chance(1, 40) {
        let ml = *p.pick(&MSG_LENS[..8]);
        ops.push(Op::HugeCtx { sk: p.usize_below(8), msg: p.bytes(ml), extra: *p.pick(&[0u8, 0, 1, 3, 32, 255]), mode: *p.pick(&MODES), rnd: p.array32() });
    }
    ops
}

/// A short, signature-free history: many more distinct keys per second than a full history, for
/// defects that depend on a rare key (a coefficient that lands exactly on a boundary value).
pub fn gen_short_history(p: &mut Prng, set: &dyn DynSet) -> Vec<Op> {
    let info = set.info();
    let mut ops = vec![
        Op::PkDerive { src: 0 },
        Op::PkToBytes { src: 1 },
        Op::SkReload { src: 0, fault: None },
        Op::PkDerive { src: 1 },
        Op::PkToBytes { src: 2 },
        Op::PkReload { src: p.usize_below(3), fault: None },
        Op::SkToBytes { src: 1 },
    ];
    if p.chance(1, 2) {
        let fault = if info.eta == 4 && p.chance(1, 4) {
            // a stuck data bus over exactly one secret polynomial's block: every 4-bit field reads 4,
            // i.e. the polynomial decodes to all-zero (eta = 4 only: 3-bit fields are not byte-periodic)
            Fault::Pattern { kind: 4 + 0x44, off: 128 + 128 * p.usize_below(info.k + info.l), len: 128 }
        } else {
            gen_fault(p, info.sk_len, Some((128, info.sk_len)))
        };
        ops.push(Op::SkReload { src: 0, fault: Some(fault) });
        ops.push(Op::SkToBytes { src: 2 });
        ops.push(Op::PkDerive { src: 2 });
        if p.chance(1, 2) {
            // the key loaded from the faulted store (if it was accepted) must also be able to sign without panicking
            ops.push(Op::Sign { sk: 2, msg: p.bytes(5), ctx: vec![], mode: *p.pick(&MODES), rnd: p.array32(), via_os: false });
        }
    } else {
        ops.push(Op::PkReload { src: 0, fault: Some(gen_fault(p, info.pk_len, None)) });
        ops.push(Op::PkToBytes { src: 4 });
    }
    ops
}

/// C06 stratum: a ladder of message sizes (2^k + 1 bytes, 64 KiB .. 1 MiB) signed in two modes and
/// misrouted to every other endpoint - a size-triggered unification of two modes' formatting shows only there.
pub fn gen_size_ladder(p: &mut Prng) -> Vec<Op> {
    let mut ops = Vec::new();
    for k in [16u32, 18, 20] {
        let ml = (1usize << k) + 1;
        let msg = p.bytes(ml);
        for mode in [Mode::Pure, *p.pick(&MODES[1..])] {
            ops.push(Op::Sign { sk: 0, msg: msg.clone(), ctx: p.bytes(3), mode, rnd: p.array32(), via_os: false });
            let t = ops.iter().filter(|o| matches!(o, Op::Sign { .. })).count() - 1;
            for m2 in MODES {
                ops.push(Op::DeliverAs { t, mode: m2 });
            }
            ops.push(Op::DeliverCross { t, shift: 0, full: false });
            ops.push(Op::DeliverCross { t, shift: 1, full: false });
        }
    }
    ops
}

/// Bulk signing with one key: per-signature rare events (a rejection loop that runs for dozens of rounds)
/// occur once in 10^4..10^5 signatures.
pub fn gen_bulk_history(p: &mut Prng, n: usize, verify_every: usize) -> Vec<Op> {
    let mut ops = Vec::new();
    for j in 0..n {
        ops.push(Op::Sign { sk: 0, msg: (j as u32).to_le_bytes().to_vec(), ctx: vec![], mode: MODES[j % 4], rnd: p.array32(), via_os: false });
        if verify_every > 0 && j % verify_every == 0 {
            ops.push(Op::Deliver { t: 999_999, fault: None });
        }
    }
    ops
}

/// Degenerate stored key: the private key's write was lost (the store reads back 0x00 everywhere) or the bus
/// was stuck on one byte value; where the library accepts such an artefact the party then signs with it. These
/// keys (every secret coefficient at its bound, t0 at its maximum) drive the rejection loop through dozens to
/// hundreds of rounds per signature - the loop counter's whole range is only visited here.
pub fn gen_lost_key_history(p: &mut Prng, n_signs: usize) -> Vec<Op> {
    let fault = if p.chance(1, 2) {
        Fault::Lost(0x00)
    } else {
        Fault::Pattern { kind: 4 + *p.pick(&[0x44u16, 0x22, 0x11, 0x00, 0x33, 0x01, 0x24, 0x12]), off: 0, len: 0 }
    };
    let mut ops = vec![Op::SkReload { src: 0, fault: Some(fault) }, Op::PkDerive { src: 1 }, Op::SkToBytes { src: 1 }];
    for _ in 0..n_signs {
        let ml = *p.pick(&[0usize, 1, 5, 32, 200]);
        ops.push(Op::Sign { sk: 1, msg: p.bytes(ml), ctx: vec![], mode: *p.pick(&MODES), rnd: p.array32(), via_os: false });
    }
    ops
}

/// Double faults on a delivered signature: its tail (the hint section, omega + k bytes) reads back as an
/// address-in-data or ramp pattern and one of the last k bytes (the per-polynomial counts) is stuck.
/// Index `j` enumerates (pattern kind, stuck position, stuck value).
pub fn gen_double_fault_history(p: &mut Prng, set: &dyn DynSet, j: usize) -> Vec<Op> {
    let info = set.info();
    let hl = info.omega + info.k;
    let vals = [0x00u8, 0x01, 0x02, 0x10, info.omega as u8, 0x7F];
    let kind = 2 + (j % 2) as u16;
    let pos = info.sig_len - 1 - (j / 2) % info.k;
    let val = vals[(j / (2 * info.k)) % vals.len()];
    let fault = Fault::Both(Box::new(Fault::Pattern { kind, off: info.sig_len - hl, len: hl }), Box::new(Fault::Stuck(pos, val)));
    vec![
        Op::Sign { sk: 0, msg: p.bytes(9), ctx: p.bytes(2), mode: *p.pick(&MODES), rnd: p.array32(), via_os: false },
        Op::Deliver { t: 0, fault: Some((0, fault)) },
    ]
}

struct RunOut {
    stats: Stats,
    viols: Vec<Violation>,
    harness: Option<String>,
    sample: Option<Value>,
    digest: u64,
}

fn body_of(set: &str, xi: &[u8; 32], xi_other: &[u8; 32], ops: &[Op], f: &Finding) -> Value {
    json!({
        "set": set, "seed_xi": hx(xi), "other_seed_xi": hx(xi_other),
        "ops": ops.iter().map(|o| o.to_json()).collect::<Vec<_>>(),
        "at_op": f.at_op, "observed": f.observed, "expected": f.expected,
    })
}

pub fn run(ctx: &Ctx) -> i32 {
    let prop: &'static str = match ctx.extra.get("prop").map(String::as_str) {
        Some("C01") => "C01",
        Some("C09") => "C09",
        Some("C11") => "C11",
        Some("C13") => "C13",
        Some("C06") => "C06",
        Some("C07") => "C07",
        _ => harness_error("world: --prop C01|C06|C07|C09|C11|C13 required"),
    };
    watch::set_judging_returns(prop == "C13");
    let all = sets::sets();
    let n: u64 = match ctx.tier {
        Tier::Quick => ctx.scaled(5000),
        Tier::Thorough => ctx.scaled(if ctx.flavour == "checked" { 60_000 } else { 120_000 }),
    };
    // second stratum: short signature-free histories over many more keys (provenance properties only)
    let n_short: u64 = if matches!(prop, "C09" | "C11" | "C13") {
        match ctx.tier {
            // C11: defects confined to ~1 key in 10^4 (a coefficient of t landing exactly on q) need volume
            Tier::Quick => ctx.scaled(match prop { "C11" => 45_000, "C13" => 30_000, _ => 15_000 }),
            Tier::Thorough => ctx.scaled(if prop == "C11" { 600_000 } else { 300_000 }),
        }
    } else {
        0
    };
    let n_ladder: u64 = if prop == "C06" { match ctx.tier { Tier::Quick => 6, Tier::Thorough => 60 } } else { 0 };
    // bulk signing: 400 signatures per history
    let n_bulk: u64 = match (prop, ctx.tier) {
        ("C13", Tier::Quick) => ctx.scaled(if ctx.flavour == "checked" { 200 } else { 400 }),
        ("C13", Tier::Thorough) => ctx.scaled(3000),
        ("C01", Tier::Quick) => ctx.scaled(90),
        // 1.8 million signatures (18 million were tried once: 65 min, clean): an honest signing call that gives up
        // after 64 rounds is a 10^-6 event on ML-DSA-65 and stays below the volume of this tier
        ("C01", Tier::Thorough) => ctx.scaled(4_500),
        _ => 0,
    };
    // degenerate stored keys: 12 signatures per history
    let n_lost: u64 = match (prop, ctx.tier) {
        ("C13", Tier::Quick) => ctx.scaled(240),
        ("C13", Tier::Thorough) => ctx.scaled(3000),
        _ => 0,
    };
    // key generation alone over many more seeds (an empty history generates two pairs): a seed on which key
    // generation itself fails is a 10^-4 event for some parameter sets
    let n_keyonly: u64 = match (prop, ctx.tier) {
        ("C13", Tier::Quick) => ctx.scaled(90_000),
        ("C13", Tier::Thorough) => ctx.scaled(1_500_000),
        _ => 0,
    };
    // double faults on delivered signatures: (2 patterns x k positions x 6 values) per parameter set, all enumerated
    let n_double: u64 = if prop == "C13" { (all.len() * 2 * 8 * 6) as u64 } else { 0 };
    let outs = run_indexed((n + n_short + n_ladder + n_bulk + n_lost + n_keyonly + n_double) as usize, ctx.workers, |i| {
        let short = (i as u64) >= n && (i as u64) < n + n_short;
        let ladder = (i as u64) >= n + n_short && (i as u64) < n + n_short + n_ladder;
        let bulk = (i as u64) >= n + n_short + n_ladder && (i as u64) < n + n_short + n_ladder + n_bulk;
        let lost = (i as u64) >= n + n_short + n_ladder + n_bulk && (i as u64) < n + n_short + n_ladder + n_bulk + n_lost;
        let keyonly = (i as u64) >= n + n_short + n_ladder + n_bulk + n_lost && (i as u64) < n + n_short + n_ladder + n_bulk + n_lost + n_keyonly;
        let double = (i as u64) >= n + n_short + n_ladder + n_bulk + n_lost + n_keyonly;
        let mut p = Prng::for_run(ctx.seed, if double { "world-double-fault" } else if keyonly { "world-keygen" } else if lost { "world-lost-key" } else if ladder { "world-ladder" } else if short { "world-short" } else { "world" }, i as u64);
        let set = all[i % all.len()];
        let xi = p.array32();
        let xi_other = p.array32();
        let ops = if double {
            gen_double_fault_history(&mut p, set, (i as u64 - (n + n_short + n_ladder + n_bulk + n_lost + n_keyonly)) as usize / all.len())
        } else if keyonly {
            Vec::new()
        } else if lost {
            gen_lost_key_history(&mut p, 12)
        } else if bulk {
            gen_bulk_history(&mut p, 400, if prop == "C01" { 1 } else { 0 })
        } else if ladder { gen_size_ladder(&mut p) } else if short { gen_short_history(&mut p, set) } else { gen_history(&mut p, set) };
        let mut stats = Stats::default();
        let mut out = RunOut { stats: Stats::default(), viols: Vec::new(), harness: None, sample: None, digest: 0 };
        match execute(set, &xi, &xi_other, &ops, &mut stats) {
            Err(e) => out.harness = Some(format!("world: {e}")),
            Ok(finds) => {
                let mut dg = Digest::new();
                dg.u64(stats.verifies);
                dg.u64(stats.signs);
                dg.u64(stats.rejected_loads);
                for s in &stats.sigs {
                    dg.str(s);
                }
                out.digest = dg.0;
                for f in finds.iter().filter(|f| f.prop == prop).take(1) {
                    out.viols.push(Violation {
                        run: i as u64,
                        invariant: f.invariant.clone(),
                        finding_key: f.invariant.clone(),
                        body: body_of(set.info().name, &xi, &xi_other, &ops, f),
                    });
                }
                if i < 3 {
                    out.sample = Some(json!({"set": set.info().name, "history": ops.iter().map(|o| {
                        let mut v = o.to_json();
                        for k in ["msg", "ctx", "rnd"] {
                            if let Some(s) = v[k].as_str() { let l = s.len() / 2; v[k] = json!(format!("<{l} bytes>")); }
                        }
                        v
                    }).collect::<Vec<_>>()}));
                }
            }
        }
        out.stats = stats;
        out
    });
    let mut tot = Stats::default();
    let mut viols = Vec::new();
    let mut samples = Vec::new();
    let mut dg = Digest::new();
    for o in outs {
        if let Some(h) = o.harness {
            harness_error(&h);
        }
        tot.ops += o.stats.ops;
        tot.verifies += o.stats.verifies;
        tot.signs += o.stats.signs;
        tot.loads += o.stats.loads;
        tot.restarts += o.stats.restarts;
        tot.tainted_objects += o.stats.tainted_objects;
        tot.rejected_loads += o.stats.rejected_loads;
        tot.max_pk_replicas = tot.max_pk_replicas.max(o.stats.max_pk_replicas);
        for (k, v) in o.stats.faults_fired {
            *tot.faults_fired.entry(k).or_insert(0) += v;
        }
        tot.sigs.extend(o.stats.sigs);
        viols.extend(o.viols);
        dg.u64(o.digest);
        if let Some(s) = o.sample {
            samples.push(s);
        }
    }
    let total_viol = viols.len();
    let mut by_key: BTreeMap<String, Violation> = BTreeMap::new();
    for v in viols {
        by_key.entry(v.finding_key.clone()).or_insert(v);
    }
    let viols: Vec<Violation> = by_key.into_values().take(6).map(|v| minimise(prop, v)).collect();
    let (code, new, kn) = report_violations(ctx, &viols);
    let wall = ctx.wall();
    let oracle = match prop {
        "C01" => "an intact tuple signed by an honest private-key replica verifies under every honest public-key replica, whatever the provenance chain of either (generated, reloaded after restart any number of times, cloned, derived)",
        "C09" => "every artefact loaded from the store (intact or faulted) serialises back to the bytes it was loaded from; public keys always load; an honest reloaded private key signs byte-identically to the never-restarted reference for the same randomness; an honest reloaded public key decides like the reference on every delivered tuple, valid or faulted",
        "C06" => "an intact tuple is rejected by every honest public-key replica when it is misrouted to the endpoint of another mode or pre-hash function, when the concatenation context||message arrives split at any other boundary, and when the formatted pre-hash input OID||PH(M) of a HashML-DSA tuple is presented to the pure ML-DSA endpoint as the message",
        "C07" => "signing with any context longer than 255 bytes (256, 257, 300, 511, 512, 1000, 65791) returns Err in every mode and with every replica, signing with every context of 0..255 bytes succeeds, and an intact tuple replayed with an over-long context - the original extended by 256 or 512 bytes (same length modulo 256), replaced by 256 or 257 bytes, or re-framed so that more than 255 leading bytes of context||message are presented as the context - is rejected by every replica",
        "C11" => "a public key derived from an honest private-key replica (generated or reloaded) serialises to the generated key's bytes and decides like the generated reference on every delivered tuple, valid or faulted",
        _ => "no operation of any history panics, including every operation on private/public keys loaded from a faulted store and on tuples delivered through a faulted channel (checked flavour: library self-checks and integer-overflow checks armed)",
    };
    write_evidence(ctx, Evidence {
        level: "exploration",
        evaluations: tot.ops,
        signatures: tot.sigs.into_iter().collect(),
        rule: format!("Seeded histories of 10..28 operations over replicas of one logical key pair: sign (4 modes; message lengths incl. 0, SHAKE rate boundaries, multi-block; context lengths incl. 0, 254, 255), deliver to every public-key replica alive (channel faults on signature, message or context), persist+reload of private and public keys through a store that injects bit rot, stuck-at bytes, lost and torn writes, derive, clone, serialise, and party restarts that drop every in-memory replica. Per-run fault rate (0..60%) and operation mix vary (swarm). For C09/C11/C13 a second stratum of short signature-free histories (derive, reload, serialise, one storage fault) runs over many more distinct keys. A never-restarted generated pair is the executable reference model. Oracle for {prop}: {oracle}. A case is distinct by (set, operation, mode, replica kind, provenance depth, honest/tainted, intact/faulted, outcome, length classes)."),
        samples,
        exhaustive: false,
        extra: json!({
            "histories": n, "short_histories": n_short, "size_ladder_histories": n_ladder, "bulk_signing_histories": n_bulk, "degenerate_stored_key_histories": n_lost, "keygen_only_histories": n_keyonly, "double_fault_histories": n_double, "runs": n + n_short + n_ladder + n_bulk + n_lost + n_keyonly + n_double,
            "runs_per_hour": if wall > 0.0 { (n as f64 / wall * 3600.0) as u64 } else { 0 },
            "operations": tot.ops, "signatures_made": tot.signs, "verifications": tot.verifies,
            "loads_from_store": tot.loads, "loads_rejected": tot.rejected_loads, "restarts": tot.restarts,
            "objects_loaded_from_faulted_store": tot.tainted_objects,
            "max_public_key_replicas_alive": tot.max_pk_replicas,
            "faults_fired": tot.faults_fired,
            "simulated_time_seam_events": tot.ops,
            "violating_histories": total_viol,
            "history_digest": format!("{:016x}", dg.0),
            "real_vs_stub": REAL_STUB,
            "oracle_set": prop,
            "sets": all.iter().map(|s| s.info().name).collect::<Vec<_>>(),
        }),
        assumptions: vec![
            "decides the slice of the property reachable by lifecycle histories and canonical storage/channel faults from honest state; inputs that must be constructed (norm exactly at a bound, aligned NTT residues, crafted encodings) are not reached and are not claimed".into(),
            "the reference model is the library's own never-restarted generated key pair: this is a refinement check between replicas, not a comparison with an independent FIPS 204 implementation".into(),
        ],
        violations: new,
        known_findings: kn,
    });
    code
}

fn parse(body: &Value) -> Option<(&'static dyn DynSet, [u8; 32], [u8; 32], Vec<Op>)> {
    let set = sets::set_by_name(body["set"].as_str()?)?;
    let ops = body["ops"].as_array()?.iter().map(Op::from_json).collect::<Option<Vec<_>>>()?;
    Some((set, unhx32(&body["seed_xi"]), unhx32(&body["other_seed_xi"]), ops))
}

pub fn replay_body(body: &Value) -> Result<Option<(String, String, String)>, String> {
    let prop = body["property"].as_str().unwrap_or("");
    let (set, xi, xo, ops) = parse(body).ok_or("bad world replay body")?;
    let mut st = Stats::default();
    let finds = execute(set, &xi, &xo, &ops, &mut st)?;
    Ok(finds.into_iter().find(|f| f.prop == prop).map(|f| (f.invariant, format!("op {}: {}", f.at_op, f.observed), f.expected)))
}

fn minimise(prop: &'static str, v: Violation) -> Violation {
    let inv = v.invariant.clone();
    let mut body = v.body.clone();
    body["property"] = json!(prop);
    let still = |b: &Value| matches!(replay_body(b), Ok(Some((i, _, _))) if i == inv);
    if !still(&body) {
        return v;
    }
    // 1. truncate after the violating operation; 2. drop operations one at a time (references are
    // taken modulo the pool size, so every sub-history is well-formed); 3. simplify what is left
    if let Some(at) = body["at_op"].as_u64() {
        // 0. the violating operation alone (one replay instead of one per operation: a library that accepts
        // a 4 GiB context hashes it on every replay)
        let mut b0 = body.clone();
        let only = body["ops"].get(at as usize).cloned();
        if let Some(only) = only {
            b0["ops"] = json!([only]);
        }
        let mut b2 = body.clone();
        b2["ops"].as_array_mut().unwrap().truncate(at as usize + 1);
        if still(&b0) {
            body = b0;
        } else if still(&b2) {
            body = b2;
        }
    }
    let mut i = 0;
    while i < body["ops"].as_array().map(|a| a.len()).unwrap_or(0) {
        let mut b2 = body.clone();
        b2["ops"].as_array_mut().unwrap().remove(i);
        if still(&b2) {
            body = b2;
        } else {
            i += 1;
        }
    }
    let n = body["ops"].as_array().map(|a| a.len()).unwrap_or(0);
    for i in 0..n {
        for (k, val) in [("msg", json!("")), ("ctx", json!("")), ("mode", json!("pure")), ("rnd", json!("00".repeat(32))), ("src", json!(0)), ("sk", json!(0)), ("tuple", json!(0))] {
            if body["ops"][i].get(k).is_some() && body["ops"][i][k] != val {
                let mut b2 = body.clone();
                b2["ops"][i][k] = val;
                if still(&b2) {
                    body = b2;
                }
            }
        }
    }
    for k in ["seed_xi", "other_seed_xi"] {
        let mut b2 = body.clone();
        b2[k] = json!("00".repeat(32));
        if still(&b2) {
            body = b2;
        }
    }
    if let Ok(Some((_, obs, exp))) = replay_body(&body) {
        body["observed"] = json!(obs);
        body["expected"] = json!(exp);
    }
    body.as_object_mut().unwrap().remove("at_op");
    body["minimised"] = json!(true);
    Violation { body, ..v }
}
