#!/usr/bin/env python3
"""False-alarm probe: behaviour-preserving refactorings of /repo (written by independent sub-agents
who were given only the property texts) must leave EVERY check silent.

usage: benign.py import <src_dir> <name> | run <name> | run-all
Each refactoring is applied to a scratch copy of /repo; the unedited suite must pass; then all claimed
quick checks run against the copy (VERIF_REPO). Any exit != 0 is a false alarm (1) or harness fragility (2).
"""
import hashlib, json, os, shutil, subprocess, sys, time
VERIF = "/verif"
BENIGN = os.path.join(VERIF, "benign")
PROPS = ["C12", "C05", "C10", "C16", "C14", "C17", "C13", "C09", "C11", "C01", "C08", "C06", "C07"]


def do_import(src, name):
    d = os.path.join(BENIGN, name)
    os.makedirs(d, exist_ok=True)
    for f in ("patch.diff", "notes.md"):
        if os.path.exists(os.path.join(src, f)):
            shutil.copy(os.path.join(src, f), os.path.join(d, f))
    json.dump({"name": name, "origin": "independent sub-agent asked for behaviour-preserving refactorings, given only the property texts"},
              open(os.path.join(d, "meta.json"), "w"), indent=1)


def run(name):
    d = os.path.join(BENIGN, name)
    meta = json.load(open(os.path.join(d, "meta.json")))
    scratch = f"/tmp/fips-benign-{name}"
    shutil.rmtree(scratch, ignore_errors=True)
    subprocess.run(["rsync", "-a", "--exclude", "target", "--exclude", ".git", "/repo/", scratch + "/"], check=True)
    p = subprocess.run(["patch", "-p1", "-s", "-i", os.path.join(d, "patch.diff")], cwd=scratch)
    meta["patch_applies"] = p.returncode == 0
    # BENIGN_PROPS=C16,C06 re-runs only those checks and keeps the recorded results of the others
    props = [x for x in os.environ.get("BENIGN_PROPS", "").split(",") if x] or PROPS
    res = dict(meta.get("checks") or {}) if props != PROPS else {}
    if p.returncode == 0:
        env = dict(os.environ, CARGO_TARGET_DIR=os.path.join(scratch, "target"), CARGO_NET_OFFLINE="true")
        t = subprocess.run("cargo test --offline 2>&1 | grep -E '^test result|FAILED|^error' | head", shell=True, cwd=scratch, env=env, stdout=subprocess.PIPE, text=True)
        meta["suite_passes"] = "FAILED" not in t.stdout and "error" not in t.stdout and t.stdout.count("test result: ok") >= 3
        shutil.rmtree(os.path.join(scratch, "target"), ignore_errors=True)
        envc = dict(os.environ, VERIF_REPO=scratch)
        for pid in props:
            t0 = time.time()
            r = subprocess.run(["./check", pid, "quick"], cwd=VERIF, env=envc, stdout=subprocess.PIPE, stderr=subprocess.STDOUT, text=True)
            info = {"exit": r.returncode, "s": round(time.time() - t0)}
            if r.returncode != 0:
                lines = [l for l in r.stdout.splitlines() if l.startswith(("VIOLATION", "HARNESS", "  invariant", "  configuration"))]
                info["detail"] = " | ".join(lines[:3])[:400] or r.stdout[-300:]
            res[pid] = info
    meta["checks"] = res
    meta["silent_everywhere"] = bool(res) and all(v["exit"] == 0 for v in res.values())
    json.dump(meta, open(os.path.join(d, "meta.json"), "w"), indent=1)
    shutil.rmtree(scratch, ignore_errors=True)
    h = hashlib.sha1(scratch.encode()).hexdigest()[:10]
    shutil.rmtree(os.path.join(VERIF, "build", "shadow-" + h), ignore_errors=True)
    bad = {k: v for k, v in res.items() if v["exit"] != 0}
    print(name, "applies=", meta["patch_applies"], "suite=", meta.get("suite_passes"), "silent=", meta["silent_everywhere"], "alarms=", json.dumps(bad)[:500])


if __name__ == "__main__":
    if sys.argv[1] == "import":
        do_import(sys.argv[2], sys.argv[3])
    elif sys.argv[1] == "run":
        run(sys.argv[2])
    elif sys.argv[1] == "run-all":
        only = sys.argv[2:]
        for n in sorted(os.listdir(BENIGN)):
            if os.path.isdir(os.path.join(BENIGN, n)) and (not only or any(n.startswith(o) for o in only)):
                run(n)
