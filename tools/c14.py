"""C14 driver: trace-recording builds of the simulator (RUSTC_WRAPPER adds SanitizerCoverage
edge + load/store callbacks), one per optimisation level."""
import json
import os
import sys
import time

# (cargo profile, flavour name, single parameter set or None = all three)
PROFILES = {"quick": [("release", "traced-O3", None), ("release", "traced-O3-only-ml-dsa-44", "ml-dsa-44")],
            "thorough": [("release", "traced-O3", None), ("opt-s", "traced-Os", None), ("opt1", "traced-O1", None),
                         ("release", "traced-O3-only-ml-dsa-44", "ml-dsa-44"), ("release", "traced-O3-only-ml-dsa-65", "ml-dsa-65"),
                         ("release", "traced-O3-only-ml-dsa-87", "ml-dsa-87")]}


def build(chk, profile, only=None):
    """only: build the library with a single parameter set (code that is cfg'd on the feature set differs)"""
    wrapper = os.path.join(chk.VERIF, "ct", "rustc-wrapper.sh")
    if only:
        return chk.cargo_build("ct", profile, features=[only], no_default=True, target_sub="ct-only" + only[-2:], env_extra={"RUSTC_WRAPPER": wrapper})
    return chk.cargo_build("ct", profile, env_extra={"RUSTC_WRAPPER": wrapper})


def setup(chk):
    b, _ = build(chk, "release")
    b2, _ = build(chk, "release", "ml-dsa-44")
    b3, _ = chk.cargo_build("ctm", "release")
    return b is not None and b2 is not None and b3 is not None


MACHINE = {"quick": [("release", "machine-Os")], "thorough": [("release", "machine-Os"), ("o3", "machine-O3")]}
SETS = ["44", "65", "87"]


def lackey(chk, binp, setname, draw, dump=None):
    """Run the constant-time test entry point once under valgrind's instruction/memory tracer; returns
    (events, md5) of the window between the two markers."""
    import subprocess
    cut = [sys.executable, os.path.join(chk.VERIF, "tools", "lackey_cut.py")] + (["--dump", dump] if dump else [])
    # valgrind writes the trace to fd 9; route it into the cutter through a shell pipeline
    cmd = f"valgrind --tool=lackey --trace-mem=yes --log-fd=9 {binp} {setname} 9>&1 >/dev/null 2>/dev/null | {' '.join(cut)}"
    p = subprocess.run(["bash", "-c", cmd], input=draw, stdout=subprocess.PIPE, stderr=subprocess.PIPE, env=chk.ENV)
    f = p.stdout.decode().split()
    if len(f) != 3 or f[2] != "2":
        return None
    return int(f[0]), f[1]


def machine_draws(seed, n):
    import random
    rnd = random.Random(int(seed) * 7919 + 14)
    base = bytes(rnd.getrandbits(8) for _ in range(64))
    draws = [("baseline", base), ("all-00", bytes(64)), ("xi-fixed-rnd-zero", base[:32] + bytes(32))]
    while len(draws) < n:
        k = len(draws)
        if k % 3 == 0:
            b = bytearray(base)
            b[rnd.randrange(64)] ^= 1 << rnd.randrange(8)
            draws.append(("one-bit-from-baseline", bytes(b)))
        else:
            draws.append(("uniform", bytes(rnd.getrandbits(8) for _ in range(64))))
    return draws[:n]


def machine(chk, tier):
    """Machine-level companion: the same entry point in an UNinstrumented build with the repository's own
    release profile (opt-level "s", LTO; plus opt-level 3 in thorough), traced instruction by instruction
    and access by access with valgrind --tool=lackey. Catches what the IR-level probes cannot: a branch-free
    source idiom that the code generator turns back into a conditional branch."""
    import concurrent.futures
    t0 = time.time()
    rc = 0
    n = 4 if tier == "quick" else 12
    draws = machine_draws(chk.SEED, n)
    results = []
    viols = []
    for profile, flavour in MACHINE[tier]:
        binp, _ = chk.cargo_build("ctm", profile)
        if binp is None:
            chk.die(f"C14: machine-level harness build failed ({profile})")
        jobs = [(s, name, d) for s in SETS for name, d in draws]
        with concurrent.futures.ThreadPoolExecutor(max_workers=12) as ex:
            outs = list(ex.map(lambda j: lackey(chk, binp, j[0], j[2]), jobs))
        for s in SETS:
            base = None
            for (js, name, d), o in zip(jobs, outs):
                if js != s:
                    continue
                if o is None:
                    chk.die(f"C14: valgrind/lackey run failed for set {s} ({flavour})")
                if name == "baseline":
                    if o[0] < 100000:
                        chk.die(f"C14: machine-level baseline window of set {s} is almost empty ({o[0]} events)")
                    base = (o, d)
                    continue
                results.append({"flavour": flavour, "set": s, "class": name, "events": o[0], "equal": o == base[0]})
                if o != base[0]:
                    viols.append({"flavour": flavour, "profile": profile, "set": s, "class": name, "baseline_draw": base[1].hex(), "draw": d.hex(),
                                  "baseline_events": base[0][0], "events": o[0]})
    known = json.load(open(chk.KNOWN)).get("known", []) if os.path.exists(chk.KNOWN) else []
    os.makedirs(chk.replay_dir(), exist_ok=True)
    new = 0
    seen = set()
    for v in viols:
        key = f"machine-trace-diverges:{v['flavour']}:ml-dsa-{v['set']}"
        if key in seen:
            continue
        seen.add(key)
        k = [e for e in known if e.get("property") == "C14" and e.get("key") == key]
        if k:
            print(f"KNOWN-FINDING: property=C14 {k[0].get('what')} [{key}]")
            continue
        new += 1
        rc = 1
        path = os.path.join(chk.replay_dir(), f"C14-{v['flavour']}-{chk.SEED}-{v['set']}.json")
        body = {"property": "C14", "invariant": "machine-trace-diverges", "finding_key": key, "flavour": v["flavour"], "profile": v["profile"],
                "window": "machine-pipeline", "set": v["set"], "stream_class": v["class"], "baseline_draw": v["baseline_draw"], "draw": v["draw"],
                "observed": f"instruction/memory-access history of keygen+sign (CT test mode) differs between two RNG outputs ({v['baseline_events']} vs {v['events']} events) in the {v['flavour']} build",
                "expected": "identical instruction and memory-access history for every RNG output"}
        json.dump(body, open(path, "w"), indent=1)
        print(f"VIOLATION property=C14 replay={path}")
        print(f"  invariant=machine-trace-diverges set=ml-dsa-{v['set']} flavour={v['flavour']} class={v['class']} events {v['baseline_events']} vs {v['events']}")
    part = chk.part_path("C14", "machine")
    sigs = sorted({f"machine|{r['flavour']}|ml-dsa-{r['set']}|{r['class']}" for r in results})
    json.dump({"property_id": "C14", "tier": tier, "seed": int(chk.SEED), "level": "exploration",
               "coverage": {"evaluations": len(results), "distinct_nontrivial": len(sigs), "signatures": sigs, "rule": "", "samples": results[:3],
                            "flavour": "machine", "machine_level_runs": len(results) + 3 * len(MACHINE[tier]),
                            "machine_level_events_per_run": {s: next((r["events"] for r in results if r["set"] == s), 0) for s in SETS},
                            "machine_level_divergences": len(viols)},
               "assumptions": ["machine level: valgrind --tool=lackey instruction and data-access trace of an uninstrumented build with the repository's release profile; compared between two markers; microarchitectural timing is still not observed"],
               "wall_s": round(time.time() - t0, 2), "violations": new}, open(part, "w"))
    return rc, part


def machine_replay(chk, path, body):
    profile = body.get("profile", "release")
    binp, _ = chk.cargo_build("ctm", profile)
    if binp is None:
        chk.die("C14 replay: machine-level harness build failed")
    d = os.path.join(chk.out_root(), "evidence", ".parts")
    os.makedirs(d, exist_ok=True)
    fa, fb = os.path.join(d, "lackey_a.txt"), os.path.join(d, "lackey_b.txt")
    a = lackey(chk, binp, body["set"], bytes.fromhex(body["baseline_draw"]), dump=fa)
    b = lackey(chk, binp, body["set"], bytes.fromhex(body["draw"]), dump=fb)
    if a is None or b is None:
        chk.die("C14 replay: valgrind/lackey run failed")
    rc = 0
    if a != b:
        rc = 1
        with open(fa) as x, open(fb) as y:
            for i, (l1, l2) in enumerate(zip(x, y)):
                if l1 != l2:
                    print(f"VIOLATION property=C14 replay={path}")
                    print(f"  invariant=machine-trace-diverges first divergence at event {i}: baseline `{l1.strip()}` vs `{l2.strip()}` ({a[0]} vs {b[0]} events)")
                    break
            else:
                print(f"VIOLATION property=C14 replay={path}")
                print(f"  invariant=machine-trace-diverges histories agree on their common prefix; lengths {a[0]} vs {b[0]}")
    else:
        print(f"REPLAY property=C14 file={path}: no divergence reproduced")
    for f in (fa, fb):
        if os.path.exists(f):
            os.remove(f)
    return rc


def main(chk, tier):
    t0 = time.time()
    parts = []
    worst = 0
    for profile, flavour, only in PROFILES[tier]:
        binp, _ = build(chk, profile, only)
        if binp is None:
            chk.die(f"C14: traced harness build failed for profile {profile}")
        part = chk.part_path("C14", flavour)
        if os.path.exists(part):
            os.remove(part)
        parts.append(part)
        rc = chk.run_bin(binp, ["c14", "--tier", tier, "--seed", chk.SEED, "--flavour", flavour, "--evidence", part,
                                "--replay-dir", chk.replay_dir(), "--known", chk.KNOWN, "--scale", chk.SCALE])
        if rc not in (0, 1):
            chk.die(f"C14: fipsim-ct ({flavour}) exited {rc}")
        worst = max(worst, rc)
    r, part = machine(chk, tier)
    worst = max(worst, r)
    parts.append(part)
    chk.merge_parts("C14", tier, parts, t0)
    return worst


def replay(chk, path, body):
    fl = body.get("flavour", "traced-O3")
    if fl.startswith("machine"):
        return machine_replay(chk, path, body)
    profile = {"traced-O3": "release", "traced-Os": "opt-s", "traced-O1": "opt1"}.get(fl, "release")
    only = fl.split("-only-")[1] if "-only-" in fl else None
    binp, _ = build(chk, profile, only)
    if binp is None:
        chk.die("C14 replay: traced harness build failed")
    return chk.run_bin(binp, ["replay", path])
