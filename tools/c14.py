"""C14 driver: trace-recording builds of the simulator (RUSTC_WRAPPER adds SanitizerCoverage
edge + load/store callbacks), one per optimisation level."""
import os
import time

# (cargo profile, flavour name, single parameter set or None = all three)
PROFILES = {"quick": [("release", "traced-O3", None), ("release", "traced-O3-only-ml-dsa-44", "ml-dsa-44")],
            "thorough": [("release", "traced-O3", None), ("opt-s", "traced-Os", None), ("opt1", "traced-O1", None),
                         ("release", "traced-O3-only-ml-dsa-44", "ml-dsa-44"), ("release", "traced-O3-only-ml-dsa-65", "ml-dsa-65"),
                         ("release", "traced-O3-only-ml-dsa-87", "ml-dsa-87")]}


def build(chk, profile, only=None):
    """only: build the library with a single parameter set (code that is cfg'd on the feature set differs)"""
    wrapper = os.path.join(chk.VERIF, "ct", "rustc-wrapper.sh")
    if only:
        return chk.cargo_build("ct", profile, features=[only], no_default=True, target_sub="ct-only" + only[-2:], env_extra={"RUSTC_WRAPPER": wrapper})
    return chk.cargo_build("ct", profile, env_extra={"RUSTC_WRAPPER": wrapper})


def setup(chk):
    b, _ = build(chk, "release")
    b2, _ = build(chk, "release", "ml-dsa-44")
    return b is not None and b2 is not None


def main(chk, tier):
    t0 = time.time()
    parts = []
    worst = 0
    for profile, flavour, only in PROFILES[tier]:
        binp, _ = build(chk, profile, only)
        if binp is None:
            chk.die(f"C14: traced harness build failed for profile {profile}")
        part = chk.part_path("C14", flavour)
        if os.path.exists(part):
            os.remove(part)
        parts.append(part)
        rc = chk.run_bin(binp, ["c14", "--tier", tier, "--seed", chk.SEED, "--flavour", flavour, "--evidence", part,
                                "--replay-dir", chk.replay_dir(), "--known", chk.KNOWN, "--scale", chk.SCALE])
        if rc not in (0, 1):
            chk.die(f"C14: fipsim-ct ({flavour}) exited {rc}")
        worst = max(worst, rc)
    chk.merge_parts("C14", tier, parts, t0)
    return worst


def replay(chk, path, body):
    fl = body.get("flavour", "traced-O3")
    profile = {"traced-O3": "release", "traced-Os": "opt-s", "traced-O1": "opt1"}.get(fl, "release")
    only = fl.split("-only-")[1] if "-only-" in fl else None
    binp, _ = build(chk, profile, only)
    if binp is None:
        chk.die("C14 replay: traced harness build failed")
    return chk.run_bin(binp, ["replay", path])
