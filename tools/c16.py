"""C16 driver: release flavour always; in the thorough tier the harness's unsafe read-back
discipline is also executed under Miri (ML-DSA-44 only, reduced matrix)."""
import json
import os
import subprocess
import time


def main(chk, tier):
    t0 = time.time()
    rc = 0
    parts = []
    # two builds of the library: with the constant-time test feature (as the other checks use it) and
    # the plain default configuration, so that a feature-conditional erasure cannot hide in either
    for flavour, feats, sub in (("release", chk.FEATS, None), ("release-default-features", None, "sim-default")):
        binp, _ = chk.cargo_build("sim", "release", features=feats, target_sub=sub)
        if binp is None:
            chk.die("C16: harness build failed")
        part = chk.part_path("C16", flavour)
        if os.path.exists(part):
            os.remove(part)
        parts.append(part)
        r = chk.run_bin(binp, ["c16", "--tier", tier, "--seed", chk.SEED, "--flavour", flavour, "--evidence", part,
                               "--replay-dir", chk.replay_dir(), "--known", chk.KNOWN, "--scale", chk.SCALE])
        if r not in (0, 1):
            chk.die(f"C16: fipsim c16 ({flavour}) exited {r}")
        rc = max(rc, r)
    # third build: whole-program optimisation, no unwinding - where a non-volatile wipe is a dead store
    r, part = dropspy(chk, tier)
    rc = max(rc, r)
    parts.append(part)
    extra = {}
    if tier == "thorough":
        extra["miri"] = miri(chk)
        if extra["miri"].get("exit") == 1:
            rc = 1
    chk.merge_parts("C16", tier, parts, t0, extra=extra)
    return rc


def dropspy(chk, tier):
    """Keys dropped the way applications drop them (Box freed; one drop site per key type per program, so that
    the drop glue is inlined next to the deallocation) in an LTO + panic=abort build; the freed memory is read back through /proc/self/mem, which the optimiser cannot see. Bytes beyond the first 64
    of a freed block (the allocator's own free-list links) must all be zero."""
    import subprocess
    t0 = time.time()
    binp, _ = chk.cargo_build("dropspy", "release")
    if binp is None:
        chk.die("C16: dropspy build failed")
    out = run_all(binp, chk)
    cases = [l.split() for l in out.splitlines() if l.startswith("CASE ")]
    if len(cases) != 9:
        chk.die("C16: dropspy did not run to completion:\n" + out[-1500:])
    for c in cases:
        kv = dict(x.split("=") for x in c[2:])
        if int(kv["live_nonzero"]) * 4 < int(kv["size"]):
            chk.die(f"C16: dropspy case {c[1]} did not hold a live key before the drop")
    bad = []
    sigs = []
    for c in cases:
        name = c[1]
        kv = dict(x.split("=") for x in c[2:])
        sigs.append("dropspy|" + name)
        if int(kv["nonzero"]) > 0:
            bad.append((name, kv))
    rc = 0
    known = json.load(open(chk.KNOWN)).get("known", []) if os.path.exists(chk.KNOWN) else []
    os.makedirs(chk.replay_dir(), exist_ok=True)
    new = 0
    for name, kv in bad[:4]:
        key = "not-erased-after-free:" + name.split("/")[1]
        k = [e for e in known if e.get("property") == "C16" and e.get("key") == key]
        if k:
            print(f"KNOWN-FINDING: property=C16 {k[0].get('what')} [{key}]")
            continue
        new += 1
        rc = 1
        path = os.path.join(chk.replay_dir(), f"C16-lto-abort-{chk.SEED}-{new}.json")
        json.dump({"property": "C16", "invariant": "not-erased-after-free", "finding_key": key, "flavour": "lto-abort", "case": name,
                   "observed": f"{kv['nonzero']} of {kv['size']} bytes of the freed {name} object are non-zero (first at offset {kv['first']}) in an LTO, panic=abort, opt-level 3 build",
                   "expected": "every byte of the dropped key object is zero"}, open(path, "w"), indent=1)
        print(f"VIOLATION property=C16 replay={path}")
        print(f"  invariant=not-erased-after-free case={name} nonzero={kv['nonzero']}/{kv['size']}")
    part = chk.part_path("C16", "lto-abort")
    json.dump({"property_id": "C16", "tier": tier, "seed": int(chk.SEED), "level": "exploration",
               "coverage": {"evaluations": len(cases), "distinct_nontrivial": len(sigs), "signatures": sigs, "rule": "", "samples": [" ".join(c) for c in cases[:3]],
                            "flavour": "lto-abort", "dropspy_cases": len(cases), "dropspy_violating_cases": len(bad)},
               "assumptions": ["dropspy: the first 64 bytes of a freed heap block belong to the allocator (free-list links) and are not judged"],
               "wall_s": round(time.time() - t0, 2), "violations": new}, open(part, "w"))
    return rc, part


BINS = [t + s for s in ("44", "65", "87") for t in ("sk", "pk", "pair")]


def run_all(binp, chk):
    """one tiny binary per (parameter set, object type): a single drop site per key type per program"""
    import subprocess
    d = os.path.dirname(binp)
    out = ""
    for b in BINS:
        p = subprocess.run([os.path.join(d, b)], stdout=subprocess.PIPE, stderr=subprocess.STDOUT, text=True, env=chk.ENV)
        out += p.stdout
        if p.returncode != 0:
            out += f"[{b} exited {p.returncode}]\n"
    return out


def dropspy_replay(chk, path, body):
    binp, _ = chk.cargo_build("dropspy", "release")
    if binp is None:
        chk.die("C16 replay: dropspy build failed")
    for l in run_all(binp, chk).splitlines():
        f = l.split()
        if l.startswith("CASE ") and f[1] == body.get("case"):
            kv = dict(x.split("=") for x in f[2:])
            if int(kv["nonzero"]) > 0:
                print(f"VIOLATION property=C16 replay={path}")
                print(f"  invariant=not-erased-after-free case={f[1]} nonzero={kv['nonzero']}/{kv['size']}")
                return 1
    print(f"REPLAY property=C16 file={path}: no violation reproduced")
    return 0


def miri(chk):
    """Run the same engine under Miri: validates that reading a slot after drop_in_place through the
    same raw pointer is defined behaviour, and re-checks the oracle in Miri's abstract machine."""
    _, tgt = chk.shadow_root()
    tdir = os.path.join(tgt, "miri")
    part = chk.part_path("C16", "miri")
    if os.path.exists(part):
        os.remove(part)
    env = dict(chk.ENV, MIRIFLAGS="-Zmiri-disable-isolation", CARGO_TARGET_DIR=tdir)
    cmd = ["cargo", "+nightly", "miri", "run", "--release", "--offline", "--no-default-features", "--features", "ml-dsa-44", "--",
           "c16", "--tier", "quick", "--seed", chk.SEED, "--flavour", "miri", "--scale", "1", "--workers", "4", "--reduced", "1",
           "--only-set", "ml-dsa-44", "--evidence", part, "--replay-dir", chk.replay_dir(), "--known", chk.KNOWN]
    t0 = time.time()
    p = subprocess.run(cmd, cwd=chk.crate_dir("sim"), env=env, stdout=subprocess.PIPE, stderr=subprocess.STDOUT, text=True)
    out = {"exit": p.returncode, "wall_s": round(time.time() - t0, 1), "cmd": " ".join(cmd[:6]) + " ..."}
    print(p.stdout[-1500:])
    if p.returncode == 1 and "VIOLATION" in p.stdout:
        return out
    if p.returncode != 0:
        # Undefined behaviour in the harness, or Miri unavailable: harness trouble, not a verdict
        chk.die("C16: Miri run failed (harness problem):\n" + p.stdout[-3000:])
    if os.path.exists(part):
        d = json.load(open(part))
        out["cases"] = d["coverage"]["evaluations"]
        out["bytes_read_back"] = d["coverage"].get("bytes_read_back")
    return out
