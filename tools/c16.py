"""C16 driver: release flavour always; in the thorough tier the harness's unsafe read-back
discipline is also executed under Miri (ML-DSA-44 only, reduced matrix)."""
import json
import os
import subprocess
import time


def main(chk, tier):
    t0 = time.time()
    rc = 0
    parts = []
    # two builds of the library: with the constant-time test feature (as the other checks use it) and
    # the plain default configuration, so that a feature-conditional erasure cannot hide in either
    for flavour, feats, sub in (("release", chk.FEATS, None), ("release-default-features", None, "sim-default")):
        binp, _ = chk.cargo_build("sim", "release", features=feats, target_sub=sub)
        if binp is None:
            chk.die("C16: harness build failed")
        part = chk.part_path("C16", flavour)
        if os.path.exists(part):
            os.remove(part)
        parts.append(part)
        r = chk.run_bin(binp, ["c16", "--tier", tier, "--seed", chk.SEED, "--flavour", flavour, "--evidence", part,
                               "--replay-dir", chk.replay_dir(), "--known", chk.KNOWN, "--scale", chk.SCALE])
        if r not in (0, 1):
            chk.die(f"C16: fipsim c16 ({flavour}) exited {r}")
        rc = max(rc, r)
    extra = {}
    if tier == "thorough":
        extra["miri"] = miri(chk)
        if extra["miri"].get("exit") == 1:
            rc = 1
    chk.merge_parts("C16", tier, parts, t0, extra=extra)
    return rc


def miri(chk):
    """Run the same engine under Miri: validates that reading a slot after drop_in_place through the
    same raw pointer is defined behaviour, and re-checks the oracle in Miri's abstract machine."""
    _, tgt = chk.shadow_root()
    tdir = os.path.join(tgt, "miri")
    part = chk.part_path("C16", "miri")
    if os.path.exists(part):
        os.remove(part)
    env = dict(chk.ENV, MIRIFLAGS="-Zmiri-disable-isolation", CARGO_TARGET_DIR=tdir)
    cmd = ["cargo", "+nightly", "miri", "run", "--release", "--offline", "--no-default-features", "--features", "ml-dsa-44", "--",
           "c16", "--tier", "quick", "--seed", chk.SEED, "--flavour", "miri", "--scale", "1", "--workers", "4", "--reduced", "1",
           "--only-set", "ml-dsa-44", "--evidence", part, "--replay-dir", chk.replay_dir(), "--known", chk.KNOWN]
    t0 = time.time()
    p = subprocess.run(cmd, cwd=chk.crate_dir("sim"), env=env, stdout=subprocess.PIPE, stderr=subprocess.STDOUT, text=True)
    out = {"exit": p.returncode, "wall_s": round(time.time() - t0, 1), "cmd": " ".join(cmd[:6]) + " ..."}
    print(p.stdout[-1500:])
    if p.returncode == 1 and "VIOLATION" in p.stdout:
        return out
    if p.returncode != 0:
        # Undefined behaviour in the harness, or Miri unavailable: harness trouble, not a verdict
        chk.die("C16: Miri run failed (harness problem):\n" + p.stdout[-3000:])
    if os.path.exists(part):
        d = json.load(open(part))
        out["cases"] = d["coverage"]["evaluations"]
        out["bytes_read_back"] = d["coverage"].get("bytes_read_back")
    return out
