"""C17 driver: the same seeded simulation replayed under every build configuration.

Per configuration c in (non-empty subsets of {44,65,87}) x default-rng on/off x dudect on/off:
 1. cargo build --lib --release --no-default-features --features c  (pinned stable toolchain);
    non-zero exit or any `warning:` line is a failure;
 2. without default-rng: the same build for x86_64-unknown-none with -Zbuild-std=core (lints capped at
    warn so nightly lint drift cannot raise a false alarm) - establishes that the crate links without std;
 3. fipsim is built with the mirrored feature set and `fipsim digest` is run; every digest it prints must
    equal the digest of the same (set, part) in the reference configuration of the same invocation
    (default configuration for `core` and `os`; default+dudect for `dudect`, whose `core` must equal the
    default's).
quick: the two reference configurations + a seeded selection of 6 more that covers every single feature
on and off and every parameter set alone; thorough: all 28.
"""
import itertools
import json
import os
import random
import shutil
import subprocess
import time

SETS = ["ml-dsa-44", "ml-dsa-65", "ml-dsa-87"]


def all_configs():
    out = []
    for r in (1, 2, 3):
        for sub in itertools.combinations(SETS, r):
            for rng in (True, False):
                for dud in (True, False):
                    out.append(tuple(list(sub) + (["default-rng"] if rng else []) + (["dudect"] if dud else [])))
    return out


DEFAULT = tuple(SETS + ["default-rng"])
DEFAULT_DUDECT = tuple(SETS + ["default-rng", "dudect"])


def cfg_name(c):
    return "+".join(x.replace("ml-dsa-", "") for x in c)


def run(cmd, cwd, env):
    p = subprocess.run(cmd, cwd=cwd, env=env, stdout=subprocess.PIPE, stderr=subprocess.STDOUT, text=True)
    return p.returncode, p.stdout


def one_config(chk, c, slot, tier, nostd_ok):
    """returns dict(config, steps{build,nostd,digest}, digests, failures[])"""
    _, tgt = chk.shadow_root()
    res = {"config": cfg_name(c), "features": list(c), "failures": [], "digests": {}, "steps": {}}
    env = dict(chk.ENV)
    feats = ",".join(c)
    # 1. the library itself, as its users build it
    t0 = time.time()
    rc, out = run(["cargo", "build", "--offline", "--lib", "--release", "--no-default-features", "--features", feats,
                   "--target-dir", os.path.join(tgt, f"c17-lib-{slot}")], chk.REPO, env)
    # compiler warnings attributed to the crate itself (a `warning:` line followed by a ` --> src/...` location,
    # or naming fips204); cargo's own environment chatter is not the library's business
    lines = out.splitlines()
    warns = []
    for i, l in enumerate(lines):
        if not l.startswith("warning"):
            continue
        ctx = " ".join(lines[i:i + 3])
        if "--> src/" in ctx or "fips204" in l:
            if "generated" in l and "warning" in l and "fips204" in l and "--> src/" not in ctx:
                continue  # the summary line of warnings already counted
            warns.append(l)
    res["steps"]["build"] = {"exit": rc, "warnings": len(warns), "s": round(time.time() - t0, 1)}
    if rc != 0:
        res["failures"].append({"step": "build", "detail": out[-1500:]})
        return res
    if warns:
        res["failures"].append({"step": "build-warnings", "detail": "\n".join(warns[:5])})
    # 2. really no_std: link-free build for a bare-metal target
    if "default-rng" not in c and nostd_ok:
        t0 = time.time()
        env2 = dict(env, RUSTFLAGS="--cap-lints warn")
        rc, out = run(["cargo", "+nightly", "build", "--offline", "-Zbuild-std=core", "--target", "x86_64-unknown-none", "--lib",
                       "--release", "--no-default-features", "--features", feats,
                       "--target-dir", os.path.join(tgt, f"c17-nostd-{slot}")], chk.REPO, env2)
        res["steps"]["nostd"] = {"exit": rc, "s": round(time.time() - t0, 1)}
        if rc != 0:
            res["failures"].append({"step": "nostd", "detail": out[-1500:]})
    # 3. the same seeded simulation under this configuration
    t0 = time.time()
    binp, out = chk.cargo_build("sim", "c17", features=list(c), no_default=True, target_sub=f"c17-sim-{slot}")
    if binp is None:
        res["failures"].append({"step": "harness-build", "detail": out[-1500:]})
        return res
    p = subprocess.run([binp, "digest", "--tier", tier, "--seed", chk.SEED, "--scale", chk.SCALE, "--workers", "4"],
                       env=env, cwd=chk.VERIF, stdout=subprocess.PIPE, stderr=subprocess.STDOUT, text=True)
    res["steps"]["digest"] = {"exit": p.returncode, "s": round(time.time() - t0, 1)}
    for l in p.stdout.splitlines():
        f = l.split()
        if l.startswith("DIGEST"):
            res["digests"][f"{f[1]}/{f[2]}"] = f[3]
            res.setdefault("ops", 0)
            res["ops"] += int(f[4])
        elif l.startswith("FAILED"):
            res["failures"].append({"step": "digest-run", "detail": l})
    if p.returncode not in (0, 3):
        res["failures"].append({"step": "digest-run", "detail": p.stdout[-800:]})
    return res


def select(tier, seed):
    allc = all_configs()
    if tier == "thorough":
        return allc
    rnd = random.Random(int(seed))
    rest = [c for c in allc if c not in (DEFAULT, DEFAULT_DUDECT)]
    chosen = [DEFAULT, DEFAULT_DUDECT]
    # every parameter set alone, without default-rng and without dudect (the classic breakage)
    for s in SETS:
        chosen.append((s,))
    # plus three seeded ones covering rng-only and dudect-only variants
    pool = [c for c in rest if c not in chosen]
    rnd.shuffle(pool)
    want = [lambda c: "default-rng" in c and "dudect" not in c and len([x for x in c if x in SETS]) < 3,
            lambda c: "dudect" in c and "default-rng" not in c,
            lambda c: len([x for x in c if x in SETS]) == 2]
    for w in want:
        for c in pool:
            if w(c) and c not in chosen:
                chosen.append(c)
                break
    return chosen


def nostd_available(chk):
    p = subprocess.run(["rustup", "+nightly", "target", "list", "--installed"], stdout=subprocess.PIPE, stderr=subprocess.STDOUT, text=True)
    src = subprocess.run(["rustc", "+nightly", "--print", "sysroot"], stdout=subprocess.PIPE, text=True).stdout.strip()
    return os.path.isdir(os.path.join(src, "lib", "rustlib", "src", "rust", "library", "core"))


def evaluate(results):
    """compare digests against the references; returns list of violations"""
    by = {r["config"]: r for r in results}
    ref = by.get(cfg_name(DEFAULT))
    refd = by.get(cfg_name(DEFAULT_DUDECT))
    viols = []
    for r in results:
        for f in r["failures"]:
            viols.append({"config": r["config"], "features": r["features"], "step": f["step"], "detail": f["detail"]})
        for key, dg in r["digests"].items():
            part = key.split("/")[1]
            reference = refd if part == "dudect" else ref
            if reference is None or key not in reference["digests"]:
                continue
            if reference["digests"][key] != dg:
                viols.append({"config": r["config"], "features": r["features"], "step": "digest-mismatch",
                              "detail": f"{key}: {dg} differs from {reference['config']}: {reference['digests'][key]}"})
        # every enabled set must have produced a core digest
        for s in [x for x in r["features"] if x in SETS]:
            if f"{s}/core" not in r["digests"] and not r["failures"]:
                viols.append({"config": r["config"], "features": r["features"], "step": "digest-missing", "detail": f"no core digest for {s}"})
    return viols


def main(chk, tier, only=None):
    t0 = time.time()
    configs = only or select(tier, chk.SEED)
    nostd_ok = nostd_available(chk)
    slots = 4
    results = [None] * len(configs)
    import queue
    import threading
    q = queue.Queue()
    for i, c in enumerate(configs):
        q.put((i, c))

    def worker(slot):
        # one worker = one set of target directories, so builds never overwrite a running binary
        while True:
            try:
                i, c = q.get_nowait()
            except queue.Empty:
                return
            results[i] = one_config(chk, c, slot, tier, nostd_ok)

    ths = [threading.Thread(target=worker, args=(s,)) for s in range(slots)]
    for t in ths:
        t.start()
    for t in ths:
        t.join()
    viols = evaluate(results)
    known = json.load(open(chk.KNOWN)).get("known", []) if os.path.exists(chk.KNOWN) else []
    rc = 0
    new = 0
    os.makedirs(chk.replay_dir(), exist_ok=True)
    for i, v in enumerate(viols):
        key = f"{v['step']}:{v['config']}"
        k = [e for e in known if e.get("property") == "C17" and e.get("key") == key]
        if k:
            print(f"KNOWN-FINDING: property=C17 {k[0].get('what')} [{key}]")
            continue
        new += 1
        rc = 1
        if new <= 8:
            path = os.path.join(chk.replay_dir(), f"C17-{chk.SEED}-{i}.json")
            body = {"property": "C17", "invariant": v["step"], "finding_key": key, "seed": int(chk.SEED), "tier": tier,
                    "features": v["features"], "observed": v["detail"], "expected": "builds without warnings and reproduces the default configuration's digests"}
            json.dump(body, open(path, "w"), indent=1)
            print(f"VIOLATION property=C17 replay={path}")
            print(f"  configuration={v['config']} step={v['step']} {v['detail'][:300]}")
    ops = sum(r.get("ops", 0) for r in results)
    sigs = sorted({f"{r['config']}|{k}" for r in results for k in r["digests"]})
    ev = {
        "property_id": "C17", "tier": tier, "seed": int(chk.SEED), "level": "exploration",
        "coverage": {
            "evaluations": ops + sum(len(r["steps"]) for r in results),
            "distinct_nontrivial": len(sigs),
            "rule": "One case = (build configuration, parameter set, digest part). Each configuration is built as the library's users build it (warnings and errors fail), built for x86_64-unknown-none with -Zbuild-std=core when default-rng is off, and then runs the same seeded fault-free simulation (seeded and RNG-driven keygen, sign in four modes, verify of good and bit-rotted tuples, serialise/deserialise/derive, error paths; OS entry points through the kernel seam and the dudect entry point when compiled in); its SHA3-256 history digests must equal the reference configuration's. Non-trivial: a digest was produced and compared.",
            "samples": [{"config": r["config"], "steps": r["steps"], "digests": r["digests"]} for r in results[:3]],
            "exhaustive": tier == "thorough" and only is None,
            "configurations_run": [r["config"] for r in results],
            "configurations_total": 28,
            "bare_metal_step_available": nostd_ok,
            "library_operations_digested": ops,
            "signature_examples": sigs[:40],
            "real_vs_stub": "real: cargo + rustc on the pinned toolchain, fips204 and its dependencies; stub: RNG device, kernel getrandom(2)",
        },
        "assumptions": ["the warnings clause uses the pinned stable toolchain; the bare-metal step caps lints at warn",
                        "behavioural equality is judged on the seeded workload of `fipsim digest`, not on all inputs"],
        "wall_s": round(time.time() - t0, 2), "violations": new, "repo": chk.REPO,
    }
    os.makedirs(os.path.dirname(chk.evidence_path("C17")), exist_ok=True)
    json.dump(ev, open(chk.evidence_path("C17"), "w"), indent=1)
    print(f"[C17] {len(results)} configurations, {ops} digested operations, {new} violations, {time.time()-t0:.0f}s")
    return rc


def replay(chk, path, body):
    feats = tuple(body["features"])
    configs = [DEFAULT, DEFAULT_DUDECT] + ([feats] if feats not in (DEFAULT, DEFAULT_DUDECT) else [])
    results = [one_config(chk, c, i, body.get("tier", "quick"), nostd_available(chk)) for i, c in enumerate(configs)]
    viols = [v for v in evaluate(results) if tuple(v["features"]) == feats]
    if viols:
        print(f"VIOLATION property=C17 replay={path}")
        for v in viols[:3]:
            print(f"  configuration={v['config']} step={v['step']} {v['detail'][:300]}")
        return 1
    print(f"REPLAY property=C17 file={path}: no violation reproduced")
    return 0
