"""Determinism proof: N seeds x every engine mode, each executed twice in separate processes,
once with 16 workers and once with 1 (plus a third run with 5); the evidence documents (minus wall-clock
fields) and the printed digests must be byte-identical. Exit 0 = deterministic, 2 = not.

usage: ./check selftest-determinism            (env VERIF_DET_SEEDS, default 24; VERIF_DET_SCALE, default 3)
"""
import json
import os
import subprocess
import sys
import tempfile

VOLATILE = ("wall_s", "workers", "evaluations_per_hour", "runs_per_hour")


def scrub(x):
    if isinstance(x, dict):
        return {k: scrub(v) for k, v in x.items() if k not in VOLATILE}
    if isinstance(x, list):
        return [scrub(v) for v in x]
    return x


def main(chk):
    seeds = int(os.environ.get("VERIF_DET_SEEDS", "24"))
    scale = os.environ.get("VERIF_DET_SCALE", "3")
    sim, _ = chk.cargo_build("sim", "release", features=chk.FEATS)
    ct, _ = chk.load_tool("c14").build(chk, "release")
    if sim is None or ct is None:
        chk.die("determinism: build failed")
    modes = [(sim, "c12"), (sim, "c05"), (sim, "c10"), (sim, "c16"), (sim, "c08"), (sim, "world"), (sim, "digest"), (ct, "c14")]
    bad = 0
    total = 0
    tmp = tempfile.mkdtemp(prefix="fipsim-det-", dir=os.path.join(chk.VERIF, "build") if os.path.isdir(os.path.join(chk.VERIF, "build")) else None)
    for s in range(seeds):
        seed = str(1000 + 7919 * s)
        for binp, mode in modes:
            docs = []
            for w in ("16", "1", "5"):
                ev = os.path.join(tmp, f"{mode}-{seed}-{w}.json")
                p = subprocess.run([binp, mode] + (["--prop", "C09"] if mode == "world" else []) + ["--seed", seed, "--scale", scale, "--workers", w, "--evidence", ev, "--replay-dir", tmp],
                                   stdout=subprocess.PIPE, stderr=subprocess.STDOUT, text=True, env=chk.ENV)
                if p.returncode != 0:
                    print(f"determinism: {mode} seed={seed} workers={w} exited {p.returncode}\n{p.stdout[-600:]}")
                    bad += 1
                    docs.append(None)
                    continue
                digests = sorted(l for l in p.stdout.splitlines() if l.startswith(("DIGEST", "ABSENT")))
                doc = scrub(json.load(open(ev))) if os.path.exists(ev) else {}
                docs.append(json.dumps([doc, digests], sort_keys=True))
                if os.path.exists(ev):
                    os.remove(ev)
            total += 1
            if len(set(docs)) != 1:
                bad += 1
                print(f"NONDETERMINISM mode={mode} seed={seed}: runs with 16/1/5 workers differ")
    try:
        os.rmdir(tmp)
    except OSError:
        pass
    print(f"determinism: {total} (mode, seed) pairs x 3 processes, {bad} mismatches")
    return 0 if bad == 0 else 2
