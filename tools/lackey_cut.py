#!/usr/bin/env python3
"""Read a valgrind --tool=lackey --trace-mem=yes trace on stdin, keep the window between the two marker
patterns (stores of width 1,2,4,8 to one address), print: <events> <md5 of the window> and, with
--dump FILE, write the window to FILE (for locating the first divergence)."""
import hashlib, sys
dump = sys.argv[sys.argv.index("--dump") + 1] if "--dump" in sys.argv else None
inside = False
h = hashlib.md5()
n = 0
recent = []
out = open(dump, "w") if dump else None
marks = 0
for line in sys.stdin:
    if line.startswith("=="):
        continue
    if line.startswith(" S "):
        recent.append(line[3:].strip())
        recent = recent[-4:]
        if len(recent) == 4:
            a = [x.split(",") for x in recent]
            if len({x[0] for x in a}) == 1 and [x[1] for x in a] == ["1", "2", "4", "8"]:
                marks += 1
                if not inside:
                    inside = True
                    continue
                else:
                    inside = False
                    break
    if inside:
        h.update(line.encode())
        n += 1
        if out:
            out.write(line)
print(n, h.hexdigest(), marks)
