#!/usr/bin/env python3
"""Generate /verif/MANIFEST.json (kept in a script so that the claimed/not-applicable lists and the
per-check texts live in one reviewable place)."""
import json, subprocess

NA = {
 "C02": "Equality of the accept/reject decision with FIPS 204 Verify needs a spec-literal reference and boundary inputs that must be constructed (norm exactly gamma1-beta, weight exactly omega, aligned NTT residues); canonical channel faults never produce them. Pure function of its input.",
 "C03": "Byte-equality with FIPS 204 Sign needs an independent reference implementation; the only seam clause (the 32 bytes come from the caller's generator and nothing else varies) is observed inside C12 (I4, I6) but cannot stand for the property.",
 "C04": "Equality with KeyGen_internal needs a reference implementation; try_keygen_with_rng and keygen_from_seed share one code path, so comparing them to each other decides none of the rare-sample cases the property is about. Pure function of the seed.",
 "C15": "Exactness of scalar arithmetic on whole domains is exhaustive-enumeration/proof territory; there is no nondeterminism or fault for a simulator to own.",
 "C18": "NTT product correctness and 32-bit overflow freedom for adversarial vectors is algebraic; needs constructed inputs and a big-integer reference, no seam involved.",
}

def chk(pid, level, text, note, technique, ref, thorough=True):
    d = {
        "property_id": pid,
        "quick_cmd": f"./check {pid} quick",
        "evidence_file": f"/verif/evidence/{pid}.json",
        "replay_cmd_template": f"./check {pid} --replay {{path}}",
        "engine": "fipsim",
        "level_claimed": {"category": level, "text": text, "design_ref": ref},
        "level_note": note,
        "technique": technique,
    }
    if thorough:
        d["thorough_cmd"] = f"./check {pid} thorough"
    return d

WORLD_NOTE = ("Decides the slice of the property reachable by lifecycle histories (restart = drop every in-memory replica, reload from stored bytes; "
              "derive; clone) and canonical storage/channel faults from honest state. Inputs that must be constructed (norms exactly at a bound, aligned NTT "
              "residues, crafted encodings) are not reached and are not claimed. The reference model is the library's own never-restarted generated key pair "
              "(refinement between replicas), not an independent FIPS 204 implementation.")

CHECKS = {
 "C01": chk("C01", "exploration",
   "World simulation (originator, store, channel, remote party in one process): seeded histories in which private- and public-key replicas are persisted, reloaded after restarts, cloned and derived any number of times, messages are signed in all four modes and delivered to every public-key replica alive. Fault-free configuration oracle: an intact tuple signed by an honest private-key replica verifies under every honest public-key replica, whatever the provenance chain of either; message/context length classes include empty, SHAKE rate boundaries, multi-block, 254 and 255.",
   WORLD_NOTE + " The for-all over messages/seeds is sampled; the rare-event cases of the rejection loop are reached only as often as the seeded volume allows (reported as reach probes in C05).",
   "deterministic simulation: seeded lifecycle histories with restarts, replica refinement against a reference pair", "DESIGN.md 4.7"),
 "C06": chk("C06", "exploration",
   "World simulation with misrouting and framing faults on the channel: an intact signed tuple is delivered (a) to the verifier endpoint of every other mode / pre-hash function, (b) with the concatenation context||message split at another boundary (the classic length-prefix corruption; absolute positions and the tuple's own boundary moved by +-1, +-2, +-8 bytes), (c) as the formatted pre-hash input OID||PH(M) presented to the pure ML-DSA endpoint as the message. Every honest public-key replica must reject. Catches a missing context-length byte or a missing domain byte even when signer and verifier share the defect.",
   WORLD_NOTE + " Messages crafted by an adversary to mimic the other mode's formatted input beyond the mechanical OID||PH(M) case, and alignments that must be searched for, are not reached.",
   "deterministic simulation: misrouting / re-framing channel faults over seeded lifecycle histories", "DESIGN.md 4.7"),
 "C07": chk("C07", "exploration",
   "World simulation: signing with contexts of 256, 257, 300, 511, 512, 1000, 65791 and 2^32+k bytes (k in {0,1,3,32,255}: the widths at which a length held in 8, 16 or 32 bits wraps; the 4 GiB buffer is untouched zero pages, so it costs nothing unless the library reads it) must fail in every mode and with every replica, through the public and the internal signing interface, and the first verifier replica must reject the tuple signed last under that context; signing with every context length class 0..255 must succeed; an intact tuple replayed by the channel with an over-long context - the original extended by 256 or 512 bytes (same length modulo 256), replaced by 256 or 257 bytes, or re-framed so that the boundary moves by exactly 256 (the aliasing case of the one-byte length field) - must be rejected by every public-key replica.",
   WORLD_NOTE + " Weak tie to the family (the statement is a function of the context length); what the simulator adds is the replay/re-framing channel fault that exhibits the aliasing when signer and verifier guards disagree. Context lengths are sampled from the listed classes, not enumerated 0..N.",
   "deterministic simulation: replay / re-framing channel faults with over-long contexts over seeded histories", "DESIGN.md 4.7"),
 "C08": chk("C08", "fault_enumeration",
   "Channel-fault simulation on honest signatures with a reference model of Algorithm 21: every single-bit flip (whole signature on a few, hint section on many signatures), stuck-at bytes, byte reorder and byte duplication inside the hint section (the channel's reorder/duplicate faults at byte granularity), seeded multi-bit rot. Oracle, both directions: sigDecode (verif-hooks wrapper) accepts iff the model accepts the hint section (unsorted or repeated indices, decreasing or excessive counts, non-zero unused bytes are each reached tens of thousands of times), and every accepted byte string re-encodes to itself.",
   "Decides the decoding and re-encoding clauses on byte strings reachable by canonical channel faults from honest signatures (not exhaustive over all byte strings at reduced parameters, as the quantifier also asks); the bijection clause for key encodings is exercised at API level by C09. Needs the add-only feature verif-hooks. Trusts the 25-line model (validated on every honest signature).",
   "deterministic simulation: channel fault enumeration vs reference model of the hint encoding", "DESIGN.md 4.8"),
 "C09": chk("C09", "exploration",
   "World simulation with a fault-injecting store: every private/public key loaded from the store - intact, or after bit rot, stuck-at bytes, lost writes (all 0x00 / all 0xFF: the extremal patterns of the statement) and torn writes - must serialise back to the very bytes it was loaded from, public keys must always load, and after any number of restarts an honest reloaded private key signs byte-identically to the never-restarted reference for the same randomness while an honest reloaded public key decides like the reference on every delivered tuple (valid and faulted).",
   WORLD_NOTE,
   "deterministic simulation: crash/restart with only stored bytes surviving, storage faults, replica refinement", "DESIGN.md 4.7"),
 "C11": chk("C11", "exploration",
   "World simulation: public-key replicas obtained by generation, by reload from the store and by derivation from generated or reloaded private keys coexist; a derived replica must serialise to the generated key's bytes and must never diverge from the generated reference on any delivered tuple, valid or faulted (the replicas-never-diverge invariant, evaluated after every delivery).",
   WORLD_NOTE,
   "deterministic simulation: replica-divergence invariant over seeded lifecycle histories", "DESIGN.md 4.7"),
 "C13": chk("C13", "exploration",
   "World simulation in the checked flavour (library self-checks and integer-overflow checks armed): no operation of any history may panic - signing, serialisation and public-key derivation on every private key that deserialisation accepted from a faulted store, verification and deserialisation of bit-rotted, stuck-at, lost and torn artefacts, contexts and messages of every length class. Found and fixed a genuine defect (get_public_key panicked on any accepted-but-inconsistent stored private key; /repo 472da62).",
   WORLD_NOTE + " 'Arbitrary byte strings' are covered only as far as canonical faults on honest artefacts reach; adversarially constructed inputs (the unreduced inverse-NTT accumulation needs a ~20 sigma alignment) are not reached.",
   "deterministic simulation: storage/channel fault injection over lifecycle histories, panic = violation", "DESIGN.md 4.7"),
 "C12": chk("C12", "fault_enumeration",
   "Deterministic simulation with the RNG device and the kernel getrandom(2) behind simulator-owned seams. The fault space (which request fails x error-before-write / after-partial-write n=1..31 / after-full-write; kernel: errnos, EINTR bursts, short reads, contract breaches at five delivery offsets) is enumerated completely for every entry point and set; keys, messages, contexts and operation histories are seeded. Invariants: fallible interface only, failure reported, no panic, every drawn bit changes the result, OS functions draw inside every call.",
   "Trusts: the x86-64 `syscall` symbol interposition reaches getrandom 0.2.x; SHAKE256 behaves as a random function for the bit-influence oracle. Evidence of absence is per explored fault point and seeded history, not a proof over all inputs.",
   "deterministic simulation: fault enumeration at RNG/syscall seams + seeded histories", "DESIGN.md 4.1"),
 "C05": chk("C05", "fault_enumeration",
   "Channel-fault simulation between originator and remote party: for each seeded honest tuple the single-bit-rot fault model is enumerated at EVERY bit of signature, serialised public key, message and context (all sets, all four modes, three verifier-key provenances), plus a hint-section/commitment-hash stratum on many more signatures. The fault model is exactly the property's quantifier, so per tuple the decision is exhaustive.",
   "Tuples are sampled (seeded); per tuple exhaustive. Release flavour only. An accepted flip would be a SHAKE256 collision.",
   "deterministic simulation: exhaustive single-bit channel-fault enumeration per seeded tuple", "DESIGN.md 4.2"),
 "C10": chk("C10", "fault_enumeration",
   "Storage-fault simulation on the serialised private key: every single-bit flip, stuck-at 0x00/0xFF at every byte, lost writes, torn writes against another honest key at every byte boundary, seeded multi-bit rot; oracle is a 15-line reference model of the on-disk layout, both directions (Err iff some s1/s2 field > 2*eta); memory-test pattern fills (0xAA, 0x55, address-in-data, ramp) of the whole key and of every 64-byte block; in the checked flavour every accepted key is re-serialised under the library's self-checks; one further build with a single parameter set enabled. Partition (field x out-of-range value) coverage is measured.",
   "Decides C10 on byte strings reachable by canonical faults from honest keys, not on all of B^SK_LEN; trusts the layout model (validated: it accepts every honest key).",
   "deterministic simulation: storage fault enumeration vs reference layout model", "DESIGN.md 4.3"),
 "C14": chk("C14", "exploration",
   "The one nondeterminism source the statement quantifies over - the values returned by the RNG device - is owned by the simulator; the oracle is the simulator's own determinism check turned on the library: the recorded event history (every control-flow edge and every load/store address, from compiler-inserted probes) of dudect_keygen_sign_with_rng must be identical for every seeded RNG output, and likewise for each secret-handling kernel driven alone through the verif-hooks wrappers on seeded in-range vectors. Exact trace comparison, not timing; optimisation levels 3 (quick) and 3/s/1 (thorough); additionally traced builds with a single parameter set (code cfg'd on the feature set); and a machine-level flavour: an uninstrumented build with the repository's own release profile traced instruction by instruction and access by access under valgrind lackey, window hashes compared across RNG outputs (found and fixed a genuine defect: decompose compiled to a conditional branch at opt-level s, /repo a916772).",
   "Observation level is LLVM IR after optimisation (SanitizerCoverage), so back-end if-conversion choices and microarchitecture are not observed; inputs are sampled (seeded), not enumerated. Needs the add-only feature verif-hooks for the kernel-alone windows.",
   "deterministic simulation: RNG-value exploration with event-history (edge + address trace) equality oracle", "DESIGN.md 4.5"),
 "C17": chk("C17", "exploration",
   "The build configuration is a knob of the simulation: the same seeded fault-free run (keygen, sign in four modes, verify good and rotted tuples, serialise/deserialise/derive, error paths, OS entry points through the kernel seam, dudect entry) is replayed under every feature configuration and its history digests are diffed against the default configuration's; each configuration must first build warning-free, and for x86_64-unknown-none (build-std=core) when default-rng is off. Thorough enumerates all 28 configurations; quick the references plus 6.",
   "Weakest tie to the technique family (no fault or schedule in the statement; said so in DESIGN.md 4.6). Behavioural equality is judged on the seeded workload, warnings on the pinned stable toolchain.",
   "deterministic simulation replayed across all build configurations (history-digest diff)", "DESIGN.md 4.6"),
 "C16": chk("C16", "exploration",
   "Lifecycle simulation: the simulator owns creation path, use history (including uses during which the RNG device fails), container and destruction instant of every key object in an inspectable arena, and reads back every byte after drop_in_place. Exhaustive (set x type x provenance x container) matrix with seeded use histories, provenances including keys loaded from a faulted store (zero prefix, lost write, zero block, bit rot, and crash-point enumeration: the key-file write torn after EVERY byte count onto a zero-filled medium, one key pair per set, both key types); two feature builds; a third harness (dropspy) built with fat LTO, panic=abort, opt-level 3 drops boxed keys as an application would (one drop site per key type) and reads the freed memory back through /proc/self/mem, so that a wipe the optimiser is allowed to delete is seen to be missing; the read-back discipline of the arena is validated under Miri in the thorough tier.",
   "Compiler-made copies on moves are outside the statement and not examined. Relies on volatile reads through the allocation's own raw pointer after drop_in_place (validated under Miri); dropspy relies on glibc malloc leaving a freed 4-32 KiB block in place apart from its first 64 bytes, and on /proc/self/mem.",
   "deterministic simulation: object-destruction events in an inspectable arena", "DESIGN.md 4.4"),
}

def main():
    claimed = [p for p in ("C12", "C05", "C10", "C16", "C14", "C17", "C13", "C09", "C11", "C01", "C08", "C06", "C07") if p in CHECKS]
    hooks_commits = []
    try:
        out = subprocess.run(["git", "-C", "/repo", "log", "--format=%h %s"], stdout=subprocess.PIPE, text=True).stdout
        hooks_commits = [l.split()[0] for l in out.splitlines() if l.split(" ", 1)[1].startswith("hook:")]
    except Exception:
        pass
    man = {
        "version": 1,
        "setup_cmd": "./check setup",
        "hooks": {
            "guard": "cargo feature `verif-hooks` (non-default)",
            "enable": "harness crates depend on fips204 with features = [\"verif-hooks\"] (the C14 kernel-alone probes and the C08 decode/re-encode oracle need it); all other seams (RNG trait, libc `syscall` symbol, drop_in_place, byte arrays) need no hook",
            "baseline_off_cmd": "cd /repo && cargo test --workspace --no-fail-fast --offline",
            "source_commits": hooks_commits,
            "add_only": True,
        },
        "engines": [
            {"name": "fipsim", "path": "/verif/sim", "serves_properties": ["C12", "C05", "C10", "C16", "C17", "C13", "C09", "C11", "C01", "C08", "C06", "C07"],
             "kind_free_text": "seeded deterministic simulator: SimRng device, SimKernel (getrandom(2) via the libc syscall symbol), object arena, channel/store fault injector; replay from self-contained JSON"},
            {"name": "fipsim-ct", "path": "/verif/ct", "serves_properties": ["C14"],
             "kind_free_text": "trace-recording build of the same simulator (SanitizerCoverage edge + load/store callbacks); oracle = equality of event histories across RNG values"},
        ],
        "checks": [CHECKS[p] for p in claimed],
        "not_applicable": [{"property_id": k, "reason": v} for k, v in sorted(NA.items())],
        "notes": "Technique family: deterministic simulation with fault injection. See DESIGN.md section 2 for the applicability rule; known_findings.json for findings (C10 defect fixed in /repo 81575a5, C13 defect fixed in /repo 472da62, C14 machine-level defect fixed in /repo a916772).",
    }
    json.dump(man, open("/verif/MANIFEST.json", "w"), indent=1)
    print("claimed:", claimed, "n/a:", sorted(NA))

if __name__ == "__main__":
    main()
