#!/usr/bin/env python3
"""Create /verif/mutants/<prop>/<name>.diff from exact string replacements on /repo's tree.

usage: mkmutant.py <prop> <name> <expect: alarm|silent> "<note>" <file> <old> <new> [<file> <old> <new> ...]
"""
import difflib, json, os, sys
prop, name, expect, note = sys.argv[1:5]
rest = sys.argv[5:]
out = []
for i in range(0, len(rest), 3):
    f, old, new = rest[i:i + 3]
    src = open(os.path.join("/repo", f)).read()
    if src.count(old) < 1:
        sys.exit(f"pattern not found in {f}: {old[:60]!r}")
    dst = src.replace(old, new, 1)
    out += list(difflib.unified_diff(src.splitlines(True), dst.splitlines(True), f"a/{f}", f"b/{f}"))
d = os.path.join("/verif/mutants", prop)
os.makedirs(d, exist_ok=True)
open(os.path.join(d, name + ".diff"), "w").write("".join(out))
meta_p = os.path.join(d, "index.json")
meta = json.load(open(meta_p)) if os.path.exists(meta_p) else {}
meta[name] = {"expect": expect, "note": note}
json.dump(meta, open(meta_p, "w"), indent=1, sort_keys=True)
print("wrote", os.path.join(d, name + ".diff"))
