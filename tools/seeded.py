#!/usr/bin/env python3
"""Seeded changes from independent sub-agents: import, confirm, and run the checks against them.

usage: seeded.py import <PROP> <src_dir_with_patch.diff> <name>
       seeded.py verify <name> [--tier quick|thorough]   # confirm demo + suite in a scratch copy, then run ./check
       seeded.py verify-all
Everything happens in a scratch copy of /repo under /tmp that is removed afterwards; /repo is never touched.
"""
import hashlib, json, os, shutil, subprocess, sys, time
VERIF = "/verif"
SEEDED = os.path.join(VERIF, "seeded")


def sh(cmd, cwd, env=None, timeout=3600):
    p = subprocess.run(cmd, cwd=cwd, shell=True, stdout=subprocess.PIPE, stderr=subprocess.STDOUT, text=True, env=env, timeout=timeout)
    return p.returncode, p.stdout


def do_import(prop, src, name):
    d = os.path.join(SEEDED, name)
    os.makedirs(d, exist_ok=True)
    for f in os.listdir(src):
        if f.endswith(".log") or f.startswith("log_"):
            continue
        if os.path.isfile(os.path.join(src, f)):
            shutil.copy(os.path.join(src, f), os.path.join(d, f))
        elif os.path.isdir(os.path.join(src, f)) and f != "target":
            shutil.copytree(os.path.join(src, f), os.path.join(d, f), dirs_exist_ok=True, ignore=shutil.ignore_patterns("target", "Cargo.lock"))
    meta = {"property": prop, "name": name, "origin": "independent sub-agent given only the property text and a scratch worktree",
            "needs": "", "confirmed": None, "check": None}
    notes = os.path.join(d, "notes.md")
    if os.path.exists(notes):
        meta["needs"] = "see notes.md"
    json.dump(meta, open(os.path.join(d, "meta.json"), "w"), indent=1)
    print("imported", d)


def run_demo(scratch, d, env):
    """Stage the seeded directory as <scratch>/_out/1 (the layout the demonstrations were written for)
    and run it; returns (ran, passed, tail)."""
    idx = os.path.basename(d).rsplit("-", 1)[-1]
    idx = idx if idx.isdigit() else "1"
    stage = os.path.join(scratch, "_out", idx)
    shutil.rmtree(os.path.join(scratch, "_out"), ignore_errors=True)
    shutil.copytree(d, stage)
    extra = ""
    if os.path.exists(os.path.join(d, "demo_args.txt")):
        extra = open(os.path.join(d, "demo_args.txt")).read().strip()
    try:
        if os.path.exists(os.path.join(d, "demo.sh")):
            # some drivers expect the test file to be in tests/ already
            placed = None
            if os.path.exists(os.path.join(d, "demo.rs")) and "cp " not in open(os.path.join(d, "demo.sh")).read():
                placed = os.path.join(scratch, "tests", "demo.rs")
                shutil.copy(os.path.join(d, "demo.rs"), placed)
            p = subprocess.run(["bash", "-c", f"sh _out/{idx}/demo.sh {scratch} > _out/demo.log 2>&1; echo $? > _out/demo.rc"], cwd=scratch, env=env)
            rc = int(open(os.path.join(scratch, "_out", "demo.rc")).read().strip() or 1)
            out = open(os.path.join(scratch, "_out", "demo.log")).read()
            if placed and os.path.exists(placed):
                os.remove(placed)
            return True, rc == 0 and "test result: FAILED" not in out, out[-600:]
        if os.path.exists(os.path.join(d, "demo.rs")):
            shutil.copy(os.path.join(d, "demo.rs"), os.path.join(scratch, "tests", "zz_demo.rs"))
            rc, out = sh(f"cargo test --offline {extra} --test zz_demo 2>&1 | tail -15", scratch, env)
            os.remove(os.path.join(scratch, "tests", "zz_demo.rs"))
            passed = "test result: ok" in out and "test result: FAILED" not in out and not any(l.startswith("error") for l in out.splitlines())
            return True, passed, out[-600:]
        return False, None, "no runnable demonstration"
    finally:
        shutil.rmtree(os.path.join(scratch, "_out"), ignore_errors=True)


def verify(name, tier="quick", keep=False):
    d = os.path.join(SEEDED, name)
    meta = json.load(open(os.path.join(d, "meta.json")))
    prop = meta["property"]
    scratch = f"/tmp/fips-seeded-{name}"
    shutil.rmtree(scratch, ignore_errors=True)
    subprocess.run(["rsync", "-a", "--exclude", "target", "--exclude", ".git", "/repo/", scratch + "/"], check=True)
    env = dict(os.environ, CARGO_TARGET_DIR=os.path.join(scratch, "target"), CARGO_NET_OFFLINE="true")
    rec = {}
    ran, passed, tail = run_demo(scratch, d, env)
    rec["demo_on_clean_tree"] = {"ran": ran, "passed": passed}
    rc, out = sh(f"patch -p1 -s -i {os.path.join(d, 'patch.diff')}", scratch)
    rec["patch_applies"] = rc == 0
    if rc == 0:
        rc, out = sh("cargo build --offline --lib --release 2>&1 | tail -5", scratch, env)
        rec["builds"] = "error" not in out and "warning" not in out
        rc, out = sh("cargo test --offline 2>&1 | grep -E '^test result|FAILED|error' | head", scratch, env)
        rec["suite_passes"] = "FAILED" not in out and "error" not in out and out.count("test result: ok") >= 3
        rec["suite_tail"] = out[-300:]
        ran, passed, tail = run_demo(scratch, d, env)
        rec["demo_on_changed_tree"] = {"ran": ran, "passed": passed, "tail": tail[-300:]}
        shutil.rmtree(os.path.join(scratch, "target"), ignore_errors=True)
        t0 = time.time()
        envc = dict(os.environ, VERIF_REPO=scratch)
        p = subprocess.run(["./check", prop, tier], cwd=VERIF, env=envc, stdout=subprocess.PIPE, stderr=subprocess.STDOUT, text=True)
        viol = [l for l in p.stdout.splitlines() if l.startswith("VIOLATION")]
        detail = [l for l in p.stdout.splitlines() if l.strip().startswith(("invariant=", "configuration="))]
        chk = {"cmd": f"VERIF_REPO=<scratch copy with patch> ./check {prop} {tier}", "exit": p.returncode, "s": round(time.time() - t0),
               "violation": viol[0] if viol else None, "detail": detail[0].strip()[:300] if detail else None}
        if viol:
            path = viol[0].split("replay=")[1].strip()
            rr = subprocess.run(["./check", prop, "--replay", path], cwd=VERIF, env=envc, stdout=subprocess.PIPE, stderr=subprocess.STDOUT, text=True)
            chk["replay_on_changed_tree_exit"] = rr.returncode
            for l in p.stdout.splitlines():
                if l.startswith("VIOLATION"):
                    pth = l.split("replay=")[1].strip()
                    if os.path.exists(pth):
                        os.remove(pth)
        elif p.returncode not in (0, 1):
            chk["output_tail"] = p.stdout[-500:]
        rec["check"] = chk
        # a change filed under one property may be reported by the check of another
        # (always for the cross-property batch X*; for others on request: SEEDED_OTHERS=C11,C01)
        if p.returncode == 0 and (name.startswith("X") or os.environ.get("SEEDED_OTHERS")):
            others = {}
            want = [o for o in os.environ.get("SEEDED_OTHERS", "").split(",") if o] or ["C12", "C05", "C10", "C16", "C14", "C17", "C13", "C09", "C11", "C01", "C08", "C06", "C07"]
            for other in want:
                if other == prop:
                    continue
                r2 = subprocess.run(["./check", other, "quick"], cwd=VERIF, env=envc, stdout=subprocess.PIPE, stderr=subprocess.STDOUT, text=True)
                if r2.returncode != 0:
                    det2 = [l.strip() for l in r2.stdout.splitlines() if l.strip().startswith(("invariant=", "configuration="))]
                    others[other] = {"exit": r2.returncode, "detail": (det2[0][:200] if det2 else "")}
                    for l in r2.stdout.splitlines():
                        if l.startswith("VIOLATION"):
                            pth = l.split("replay=")[1].strip()
                            if os.path.exists(pth):
                                os.remove(pth)
            rec["reported_by_other_checks"] = others
    meta["confirmed"] = bool(rec.get("patch_applies") and rec.get("builds") and rec.get("suite_passes")
                             and (rec["demo_on_clean_tree"]["passed"] in (True, None))
                             and (rec.get("demo_on_changed_tree", {}).get("passed") in (False, None)))
    meta["verification"] = rec
    meta["detected_by_quick_check" if tier == "quick" else "detected_by_thorough_check"] = rec.get("check", {}).get("exit") == 1
    json.dump(meta, open(os.path.join(d, "meta.json"), "w"), indent=1)
    if not keep:
        shutil.rmtree(scratch, ignore_errors=True)
        h = hashlib.sha1(scratch.encode()).hexdigest()[:10]
        shutil.rmtree(os.path.join(VERIF, "build", "shadow-" + h), ignore_errors=True)
    print(name, "confirmed=", meta["confirmed"], "check exit=", rec.get("check", {}).get("exit"), rec.get("check", {}).get("detail"))
    return meta


if __name__ == "__main__":
    if sys.argv[1] == "import":
        do_import(*sys.argv[2:5])
    elif sys.argv[1] == "verify":
        tier = sys.argv[sys.argv.index("--tier") + 1] if "--tier" in sys.argv else "quick"
        verify(sys.argv[2], tier, "--keep" in sys.argv)
    elif sys.argv[1] == "verify-all":
        only = [a for a in sys.argv[2:] if not a.startswith("--")]
        for n in sorted(os.listdir(SEEDED)):
            if os.path.isdir(os.path.join(SEEDED, n)) and (not only or any(n.startswith(o) for o in only)):
                try:
                    verify(n)
                except Exception as e:  # keep going; record the trouble
                    print(n, "ERROR", e)
