#!/usr/bin/env python3
"""Render the sensitivity results (own mutants and independently seeded changes) as markdown."""
import json, os, re
V = "/verif"
out = []
out.append("| change (seeded/<name>) | property | what it needs to manifest | confirmed (suite passes, demo fails/passes) | quick check | reported as |")
out.append("|---|---|---|---|---|---|")
for n in sorted(os.listdir(os.path.join(V, "seeded"))):
    mp = os.path.join(V, "seeded", n, "meta.json")
    if not os.path.exists(mp):
        continue
    m = json.load(open(mp))
    chk = (m.get("verification") or {}).get("check") or {}
    needs = m.get("needs_short") or m.get("needs", "")
    det = {1: "**alarm**", 0: "silent (miss)"}.get(chk.get("exit"), f"exit {chk.get('exit')}")
    inv = (chk.get("detail") or "").split(" observed=")[0].replace("invariant=", "").replace("configuration=", "config ")
    others = (m.get("verification") or {}).get("reported_by_other_checks") or {}
    hit = [k for k, v in sorted(others.items()) if v.get("exit") == 1]
    if chk.get("exit") == 0 and hit:
        det = f"**alarm** by {', '.join(hit)} (silent in {m['property']})"
        inv = (others[hit[0]].get("detail") or "").split(" observed=")[0].replace("invariant=", "").replace("configuration=", "config ")
    out.append(f"| {n} | {m['property']} | {needs} | {'yes' if m.get('confirmed') else 'NO'} | {det} | {inv[:70]} |")
print("\n".join(out))
print()
res = json.load(open(os.path.join(V, "mutants", "results.json")))
out = ["| own mutant (mutants/<prop>/<name>.diff) | expected | observed | note |", "|---|---|---|---|"]
for k in sorted(res):
    prop, name = k.split("/")
    idx = json.load(open(os.path.join(V, "mutants", prop, "index.json")))
    if name not in idx:
        continue
    out.append(f"| {k} | {idx[name]['expect']} | {res[k]['observed']} | {idx[name]['note'][:160]} |")
print("\n".join(out))
