#!/bin/bash
# Run every quick check under several seeds on the unchanged tree; any exit != 0 is a false alarm or harness bug.
cd "$(dirname "$0")/.."
./check setup > /dev/null 2>&1
bad=0
for s in ${SEEDS:-1 2 3 7 11 42 1000 65537 123456789 -5}; do
  for p in C12 C05 C10 C16 C14 C17 C13 C09 C11 C01 C08 C06 C07; do
    VERIF_SEED=$s ./check $p quick > /tmp/sweep_$p.log 2>&1
    rc=$?
    if [ $rc -ne 0 ] || grep -q "^VIOLATION\|^KNOWN-FINDING" /tmp/sweep_$p.log; then
      echo "seed=$s $p rc=$rc"; grep "VIOLATION\|HARNESS" /tmp/sweep_$p.log | head -3; bad=1
    fi
  done
  echo "seed $s done"
done
echo "sweep finished bad=$bad"
exit $bad
