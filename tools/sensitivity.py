#!/usr/bin/env python3
"""Sensitivity self-test: apply each patch in /verif/mutants/<prop>/ to a scratch copy of /repo,
run that property's quick check against the copy (VERIF_REPO), and compare with the expectation
recorded in index.json ("alarm": exit 1 with a replay that reproduces; "silent": exit 0).
Scratch copies and their build output are removed afterwards.

usage: sensitivity.py [PROP ...] [--only NAME] [--keep] [--tests]
"""
import json, os, shutil, subprocess, sys, time
VERIF = "/verif"
args = [a for a in sys.argv[1:] if not a.startswith("--")]
only = sys.argv[sys.argv.index("--only") + 1] if "--only" in sys.argv else None
if only and only in args:
    args.remove(only)
keep = "--keep" in sys.argv
run_tests = "--tests" in sys.argv
props = args or sorted(os.listdir(os.path.join(VERIF, "mutants")))
results = []
for prop in props:
    d = os.path.join(VERIF, "mutants", prop)
    if not os.path.isdir(d):
        continue
    meta = json.load(open(os.path.join(d, "index.json")))
    for name in sorted(meta):
        if only and name != only:
            continue
        scratch = f"/tmp/fips-mut-{prop}-{name}"
        shutil.rmtree(scratch, ignore_errors=True)
        subprocess.run(["rsync", "-a", "--exclude", "target", "--exclude", ".git", "/repo/", scratch + "/"], check=True)
        p = subprocess.run(["patch", "-p1", "-s", "-i", os.path.join(d, name + ".diff")], cwd=scratch)
        if p.returncode != 0:
            results.append((prop, name, meta[name]["expect"], "PATCH-FAILED", ""))
            continue
        tests = ""
        if run_tests:
            t = subprocess.run("cargo test --offline 2>&1 | grep -E '^test result' | head -3", shell=True, cwd=scratch,
                               stdout=subprocess.PIPE, text=True, env=dict(os.environ, CARGO_TARGET_DIR=scratch + "/target"))
            tests = "tests:" + ("pass" if "FAILED" not in t.stdout and "failed; " in t.stdout and " 0 failed" in t.stdout else "FAIL")
        t0 = time.time()
        env = dict(os.environ, VERIF_REPO=scratch)
        r = subprocess.run(["./check", prop, "quick"], cwd=VERIF, env=env, stdout=subprocess.PIPE, stderr=subprocess.STDOUT, text=True)
        viol = [l for l in r.stdout.splitlines() if l.startswith("VIOLATION")]
        verdict = {0: "silent", 1: "alarm"}.get(r.returncode, f"exit{r.returncode}")
        detail = ""
        if viol:
            path = viol[0].split("replay=")[1].strip()
            detail = viol[0]
            rr = subprocess.run(["./check", prop, "--replay", path], cwd=VERIF, env=env, stdout=subprocess.PIPE, stderr=subprocess.STDOUT, text=True)
            detail += f" | replay-on-mutant exit={rr.returncode}"
            rb = subprocess.run(["./check", prop, "--replay", path], cwd=VERIF, stdout=subprocess.PIPE, stderr=subprocess.STDOUT, text=True)
            detail += f" replay-on-/repo exit={rb.returncode}"
            for l in r.stdout.splitlines():
                if l.startswith("VIOLATION"):
                    pth = l.split("replay=")[1].strip()
                    if os.path.exists(pth):
                        os.remove(pth)
        elif r.returncode not in (0, 1):
            detail = r.stdout[-400:].replace("\n", " / ")
        ok = verdict == meta[name]["expect"]
        results.append((prop, name, meta[name]["expect"], verdict + ("" if ok else "  <-- MISMATCH"), f"{time.time()-t0:.0f}s {tests} {detail}"))
        print(results[-1], flush=True)
        if not keep:
            shutil.rmtree(scratch, ignore_errors=True)
            import hashlib
            h = hashlib.sha1(scratch.encode()).hexdigest()[:10]
            shutil.rmtree(os.path.join(VERIF, "build", "shadow-" + h), ignore_errors=True)
# persist what was observed, next to the expectations (read by tools/seeded_table.py for DESIGN.md)
res_p = os.path.join(VERIF, "mutants", "results.json")
allres = json.load(open(res_p)) if os.path.exists(res_p) else {}
for r in results:
    allres[f"{r[0]}/{r[1]}"] = {"expect": r[2], "observed": r[3].replace("  <-- MISMATCH", ""), "match": "MISMATCH" not in r[3] and "FAILED" not in r[3]}
json.dump(allres, open(res_p, "w"), indent=1, sort_keys=True)
print("\n== summary ==")
bad = 0
for r in results:
    print(" ", *r[:4])
    bad += "MISMATCH" in r[3] or "FAILED" in r[3]
sys.exit(1 if bad else 0)
