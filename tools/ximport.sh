#!/bin/bash
# import cross-property seeded changes: the property is named on the first line of notes.md ("PROPERTY: Cxx")
cd /verif
for x in "$@"; do
  for i in 1 2 3 4; do
    d=/tmp/wt/$x/_out/$i
    [ -f $d/patch.diff ] || continue
    prop=$(head -3 $d/notes.md | grep -o "PROPERTY: *C[0-9][0-9]" | head -1 | grep -o "C[0-9][0-9]")
    [ -z "$prop" ] && prop=C01
    python3 tools/seeded.py import $prop $d $x-$i > /dev/null
    echo "$x-$i -> $prop"
  done
  git -C /repo worktree remove --force /tmp/wt/$x
done
